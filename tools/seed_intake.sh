#!/bin/bash
# usage: seed_intake.sh <ID> [check-id]  -- validates a sub-agent's seeded change, stores it under /verif/seeded/<ID>/ and runs the check on it
set -u
export GOFLAGS=-mod=mod GOPROXY=off GOSUMDB=off GOTOOLCHAIN=local
id=$1; chk=${2:-$1}; tag=${3:-$id}
src=${SEEDROOT:-/tmp/seed}/$tag
out=/verif/seeded/${OUTTAG:-$tag}
mkdir -p $out
git -C $src diff -- jen ':!jen/zz_demo_test.go' > $out/patch.diff
cp $src/jen/zz_demo_test.go $out/demo_test.go 2>/dev/null
cp $src/NOTES.md $out/NOTES.md 2>/dev/null
d=$(mktemp -d /tmp/seedchk.XXXXXX); rmdir $d
git -C /repo worktree add -q --detach $d HEAD || exit 2
trap 'git -C /repo worktree remove --force $d' EXIT
cp $out/demo_test.go $d/jen/zz_demo_test.go
base_demo=$(cd $d && go test -vet=off -count=1 -run '^TestDemo$' ./jen 2>&1 | tail -1)
git -C $d apply $out/patch.diff || { echo "PATCH DOES NOT APPLY to current HEAD"; exit 2; }
build=$(cd $d && go build ./... 2>&1 | tail -1)
suite=$(cd $d && go test -vet=off -count=1 -skip '^TestDemo$' ./... 2>&1 | grep -v "no test files" | tr '\n' ' ')
mut_demo=$(cd $d && go test -vet=off -count=1 -run '^TestDemo$' ./jen 2>&1 | tail -1)
rm -f $d/jen/zz_demo_test.go
echo "unchanged+demo: $base_demo"; echo "build: ${build:-ok}"; echo "suite with change: $suite"; echo "changed+demo: $mut_demo"
t0=$(date +%s)
GOSMT_EVIDENCE_DIR=/tmp/seed_evidence GOSMT_REPLAY_DIR=/tmp/seed_replays VERIF_REPO=$d timeout 1500 /verif/bin/gosmt check $chk --tier quick > $out/check_output.txt 2>&1; rc=$?
t1=$(date +%s)
grep -v "^INCONCL" $out/check_output.txt | tail -4 | cut -c1-400
echo "check exit=$rc in $((t1-t0))s"
python3 - <<PY
import json
json.dump({"property":"$id","check_run":"VERIF_REPO=<scratch worktree with patch.diff applied> /verif/bin/gosmt check $chk --tier quick","check_exit":$rc,
 "unchanged_tree_demo":"""$base_demo""","suite_with_change":"""$suite""","changed_tree_demo":"""$mut_demo""",
 "needs_to_manifest":"see NOTES.md (written by the sub-agent that produced the change)","detected": $rc==1}, open("$out/meta.json","w"), indent=1)
PY
