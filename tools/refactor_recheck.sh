#!/bin/bash
# usage: refactor_recheck.sh <R-tag> "<check ids>" -- re-run checks on a stored behaviour-preserving refactoring
set -u
export GOFLAGS=-mod=mod GOPROXY=off GOSUMDB=off GOTOOLCHAIN=local
tag=$1; checks=$2; out=/verif/refactors/$tag
d=$(mktemp -d /tmp/refchk.XXXXXX); rmdir $d
git -C /repo worktree add -q --detach $d HEAD || exit 2
trap 'git -C /repo worktree remove --force $d' EXIT
git -C $d apply $out/patch.diff || { echo "PATCH DOES NOT APPLY"; exit 2; }
: > $out/check_output.txt
for c in $checks; do
  GOSMT_EVIDENCE_DIR=/tmp/ref_evidence GOSMT_REPLAY_DIR=/tmp/ref_replays VERIF_REPO=$d timeout 1800 /verif/bin/gosmt check $c --tier quick > /tmp/ref_$c.out 2>&1; rc=$?
  echo "== $tag $c exit=$rc inconclusive=$(grep -c '^INCONCLUSIVE' /tmp/ref_$c.out) $(grep SUMMARY /tmp/ref_$c.out | sed 's/.*paths=/paths=/' | cut -c1-120)"
  { echo "== $c exit=$rc"; cat /tmp/ref_$c.out; } >> $out/check_output.txt
  grep '^INCONCLUSIVE' /tmp/ref_$c.out | cut -c1-220 | sort | uniq -c | sort -rn | head -2
done
