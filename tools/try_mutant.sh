#!/bin/bash
# usage: try_mutant.sh <patch.diff> <ID> [tier]   -- development aid: applies a patch to a scratch worktree,
# runs the repository's tests and the check against it (VERIF_REPO), then removes the worktree.
set -u
export GOFLAGS=-mod=mod GOPROXY=off GOSUMDB=off GOTOOLCHAIN=local
patch=$(readlink -f "$1"); id=$2; tier=${3:-quick}
d=$(mktemp -d /tmp/mut.XXXXXX); rmdir $d
git -C /repo worktree add -q --detach $d HEAD || exit 2
trap 'git -C /repo worktree remove --force $d' EXIT
git -C $d apply "$patch" || { echo "PATCH FAILED"; exit 2; }
(cd $d && go build ./... && go test -vet=off -count=1 ./... 2>&1 | tail -3)
shift 3 2>/dev/null
GOSMT_EVIDENCE_DIR=/tmp/mut_evidence GOSMT_REPLAY_DIR=/tmp/mut_replays VERIF_REPO=$d /verif/bin/gosmt check $id --tier $tier "$@"
echo "exit=$?"
