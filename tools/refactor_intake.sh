#!/bin/bash
# usage: refactor_intake.sh <R-tag> "<check ids>" -- a behaviour-preserving refactoring from a sub-agent must keep every check silent
set -u
export GOFLAGS=-mod=mod GOPROXY=off GOSUMDB=off GOTOOLCHAIN=local
tag=$1; checks=$2
src=/tmp/seed2/$tag
out=/verif/refactors/$tag
mkdir -p $out
git -C $src diff -- jen ':!jen/zz_refactor_test.go' > $out/patch.diff
cp $src/jen/zz_refactor_test.go $out/refactor_test.go 2>/dev/null
cp $src/NOTES.md $out/NOTES.md 2>/dev/null
d=$(mktemp -d /tmp/refchk.XXXXXX); rmdir $d
git -C /repo worktree add -q --detach $d HEAD || exit 2
trap 'git -C /repo worktree remove --force $d' EXIT
git -C $d apply $out/patch.diff || { echo "PATCH DOES NOT APPLY"; exit 2; }
cp $out/refactor_test.go $d/jen/zz_refactor_test.go
(cd $d && go build ./... && go test -vet=off -count=1 ./... 2>&1 | grep -v "no test files" | tr '\n' ' '); echo
rm -f $d/jen/zz_refactor_test.go
: > $out/check_output.txt
for c in $checks; do
  VERIF_DIR=/tmp/refverif.$$ true
  GOSMT_EVIDENCE_DIR=/tmp/ref_evidence GOSMT_REPLAY_DIR=/tmp/ref_replays VERIF_REPO=$d timeout 1800 /verif/bin/gosmt check $c --tier quick > /tmp/ref_$c.out 2>&1; rc=$?
  echo "== $c exit=$rc inconclusive=$(grep -c '^INCONCLUSIVE' /tmp/ref_$c.out) $(grep SUMMARY /tmp/ref_$c.out | cut -c1-160)"
  { echo "== $c exit=$rc"; cat /tmp/ref_$c.out; } >> $out/check_output.txt
  grep '^INCONCLUSIVE' /tmp/ref_$c.out | cut -c1-250 | sort | uniq -c | sort -rn | head -3
done
