#!/usr/bin/env python3
"""Regenerates /verif/MANIFEST.json from the table below (development aid)."""
import json
ids=[json.loads(l)['id'] for l in open('/verif/properties.jsonl')]
TRUST="Trusted base: go/packages+go/ssa front end, the gosmt interpreter (validated per run by replaying solver witnesses against the compiled code), z3 4.8.12 / z3 5.1.0 / cvc5 1.0, and the stated contracts of the standard-library stubs (fmt, strconv, go/format, os, regexp, strings, unicode) which are re-validated against the real functions on every counterexample. "
claimed={
 'C05':("Bounded symbolic execution of File.register / isValidAlias / guessAlias from go/ssa with import paths, hints and PackagePrefix as SMT strings: for every path string, hint identifier and prefix, within K<=2 (quick) / K<=3 (thorough) distinct non-stdlib paths, the names returned are identifiers, not keywords/predeclared (oracle: go/token + types.Universe), pairwise distinct. guessAlias and IsReservedWord enter through contracts that lemma harnesses prove on their real SSA in the same run.",
        "Paths are arbitrary non-empty byte strings outside jennifer's stdlib table and != \"C\"; hints are ASCII identifiers != \"_\"; guessAlias lemma cut at 2 stripped leading digits (stated loop bound). Unicode identifiers in hints are outside the bound.", "6 (C05)"),
 'C06':("Symbolic execution of Qual rendering for a symbolic local path, reference path, name and prefix, with 0..4 (quick) / 0..5 (thorough) earlier dot imports: local references render bare and import nothing, dot imports render bare and register exactly `.`, every other path (free to resemble the local path) is qualified by its registered name.",
        "Other dot-imported paths are distinct constants; the path under test is symbolic. Multi-import block layout is C04/C19's.", "6 (C06)"),
 'C10':("Symbolic execution of File.Render, File.Save, Statement/Group Render, RenderWithFile and GoString over every fault schedule: children that may fail after a partial write, formatter failure (free gofmt_ok), a caller's writer whose every Write may fail, os.WriteFile as an effect event with a free error. Obligations: nothing written / no filesystem effect before success, errors returned, on success the writer/file receives exactly gofmt(raw).",
        "N<=2 children (quick) / 3 (thorough), <=1 header and <=1 package comment, texts unbounded. Inside of go/format and os.WriteFile is outside the claim.", "6 (C10)"),
 'C11':("Symbolic execution of the literal token's rendering for each of the 17 supported types with the value as an SMT variable (Int for integers over the full range; float bits as Int with fmt's %#v as an uninterpreted function constrained to its documented output language). Obligation: the text is a constant expression of that exact type/value (structural forms symbolically; go/types+go/constant natively on replay).",
        "fmt's digit generation (shortest round-trip) and complex formatting are trusted contracts, validated natively on a battery each run; NaN/Inf excluded.", "6 (C11)"),
 'C12':("Symbolic execution of Lit(string), LitRune, LitByte (and Func forms) with unbounded symbolic string / all code points / all bytes: the output is exactly one string/rune token that unquotes to the input (strconv.Quote/Unquote as contract UFs refined against the real functions), byte literal is a uint8 constant of value b.",
        "strconv.Quote/Unquote inverse pair is trusted library code (contract); counterexamples are confirmed with go/scanner + strconv natively.", "6 (C12)"),
 'C13':("One-step list lemma on the real Group.render/renderItems/isNull and Statement.render/isNull with symbolic delimiters, separator, multi flag and opaque children (symbolic null flag and text): output equals the reference printer over the non-null items for every arity N<=2 with the full item alphabet (nil, typed nil, Null, Empty, null statement, empty List, empty Tag, opaque) and N=3..5 with {opaque, nil} (quick); N<=3 full (thorough). By structural induction (DESIGN 4.2) this covers arbitrary subtrees.",
        "Arity bound; the induction argument is on paper; constructor-to-Group mapping is C14/C01's.", "6 (C13)"),
 'C19':("Symbolic execution of register/renderImports/Qual with every combination of {Qual C, Anon C (before/after), 0..1 (quick) / 0..2 (thorough) symbolic preamble texts, one other import (none/plain/anonymous/hinted), PackagePrefix, hints naming C}: C is registered unaliased as C, references are C.name, the import block equals the reference (separate declaration directly below the preamble comments when a preamble exists).",
        "One other import whose path sorts after \"C\"; comment text unbounded.", "6 (C19)"),
}
checks=[]
for i in ids:
    if i in claimed:
        text,note,ref=claimed[i]
        checks.append({"property_id":i,
          "quick_cmd":"./bin/gosmt check %s --tier quick"%i,
          "thorough_cmd":"./bin/gosmt check %s --tier thorough"%i,
          "evidence_file":"/verif/evidence/%s.json"%i,
          "replay_cmd_template":"./bin/gosmt replay {path}",
          "engine":"gosmt",
          "level_claimed":{"category":"model_checking","text":text,"design_ref":"DESIGN.md section "+ref},
          "level_note":TRUST+note,
          "technique":"bounded symbolic execution of jennifer's go/ssa to SMT-LIB (strings, ints, UF contracts), decided by z3/cvc5; counterexamples replayed natively"})
na=[{"property_id":i,"reason":"check under construction in this session; will be claimed once it runs clean on the unchanged tree"} for i in ids if i not in claimed]
m={"version":1,
 "setup_cmd":"mkdir -p /verif/bin && cd /verif/engine && GOFLAGS=-mod=mod GOPROXY=off GOSUMDB=off GOTOOLCHAIN=local go build -o /verif/bin/gosmt .",
 "hooks":{"guard":"verif","enable":"none needed: harnesses enter the build through go/packages overlays (symbolic run) and go test -overlay (native replay); /repo carries no hook code","baseline_off_cmd":"cd /repo && go test -vet=off -count=1 ./...","source_commits":[],"add_only":True},
 "engines":[{"name":"gosmt","path":"/verif/engine","serves_properties":ids,"kind_free_text":"symbolic executor for jennifer's go/ssa emitting SMT-LIB2 to z3 4.8.12 / z3 5.1.0 / cvc5 1.0; harnesses in /verif/harness are overlaid into package jen"}],
 "checks":checks,
 "notes":"Every check regenerates its encoding from /repo's working tree (go/packages + go/ssa). Exit 0 with INCONCLUSIVE lines means an obligation could not be decided (never counted as held); exit 1 only for a counterexample reproduced against the natively compiled code. Fixed genuine defects are recorded in /verif/known_findings.json.",
 "not_applicable":na}
json.dump(m,open('/verif/MANIFEST.json','w'),indent=1)
print(len(checks),"checks,",len(na),"not claimed yet")
