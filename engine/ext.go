package main

// Generic model for pure standard-library functions over scalars that have no
// dedicated stub: constant arguments are evaluated natively (reflection on the
// real function); symbolic arguments give an uninterpreted application whose
// values are corrected against the real function during counterexample
// refinement. No axioms: only congruence is assumed.

import (
	"go/token"
	"math/big"
	"path"
	"path/filepath"
	"reflect"
	"strconv"
	"strings"
	"unicode"
	"unicode/utf8"
)

var extFuncs = map[string]interface{}{
	"strings.ReplaceAll":  strings.ReplaceAll,
	"strings.Replace":     strings.Replace,
	"strings.TrimSpace":   strings.TrimSpace,
	"strings.Trim":        strings.Trim,
	"strings.TrimLeft":    strings.TrimLeft,
	"strings.TrimRight":   strings.TrimRight,
	"strings.ToUpper":     strings.ToUpper,
	"strings.Title":       strings.Title,
	"strings.Index":       strings.Index,
	"strings.IndexByte":   strings.IndexByte,
	"strings.IndexAny":    strings.IndexAny,
	"strings.LastIndexByte": strings.LastIndexByte,
	"strings.LastIndexAny": strings.LastIndexAny,
	"strings.Count":       strings.Count,
	"strings.EqualFold":   strings.EqualFold,
	"strings.ContainsAny": strings.ContainsAny,
	"strings.ContainsRune": strings.ContainsRune,
	"strings.Compare":     strings.Compare,
	"strings.ToValidUTF8": strings.ToValidUTF8,
	"strconv.FormatInt":   strconv.FormatInt,
	"strconv.FormatUint":  strconv.FormatUint,
	"strconv.QuoteToASCII": strconv.QuoteToASCII,
	"strconv.QuoteToGraphic": strconv.QuoteToGraphic,
	"strconv.QuoteRuneToASCII": strconv.QuoteRuneToASCII,
	"path.Base":           path.Base,
	"path.Clean":          path.Clean,
	"path.Dir":            path.Dir,
	"path.Ext":            path.Ext,
	"path/filepath.Base":  filepath.Base,
	"path/filepath.Clean": filepath.Clean,
	"path/filepath.Dir":   filepath.Dir,
	"unicode.IsLetter":    unicode.IsLetter,
	"unicode.IsUpper":     unicode.IsUpper,
	"unicode.IsLower":     unicode.IsLower,
	"unicode.IsSpace":     unicode.IsSpace,
	"unicode.IsPrint":     unicode.IsPrint,
	"unicode.IsGraphic":   unicode.IsGraphic,
	"unicode.IsControl":   unicode.IsControl,
	"unicode.IsNumber":    unicode.IsNumber,
	"unicode.IsPunct":     unicode.IsPunct,
	"unicode.ToLower":     unicode.ToLower,
	"unicode.ToUpper":     unicode.ToUpper,
	"unicode/utf8.RuneCountInString": utf8.RuneCountInString,
	"unicode/utf8.ValidString":       utf8.ValidString,
	"unicode/utf8.RuneLen":           utf8.RuneLen,
	"unicode/utf8.ValidRune":         utf8.ValidRune,
	"go/token.IsKeyword":             token.IsKeyword,
	"go/token.IsIdentifier":          token.IsIdentifier,
}

func sortOfReflect(t reflect.Type) (Sort, bool) {
	switch t.Kind() {
	case reflect.String:
		return SStr, true
	case reflect.Bool:
		return SBool, true
	case reflect.Int, reflect.Int8, reflect.Int16, reflect.Int32, reflect.Int64,
		reflect.Uint, reflect.Uint8, reflect.Uint16, reflect.Uint32, reflect.Uint64:
		return SInt, true
	}
	return 0, false
}

func reflectArg(t reflect.Type, v string) (reflect.Value, bool) {
	switch t.Kind() {
	case reflect.String:
		s, ok := modelStr(v)
		return reflect.ValueOf(s).Convert(t), ok
	case reflect.Bool:
		return reflect.ValueOf(v == "true"), true
	case reflect.Int, reflect.Int8, reflect.Int16, reflect.Int32, reflect.Int64:
		i, ok := new(big.Int).SetString(v, 10)
		if !ok || !i.IsInt64() {
			return reflect.Value{}, false
		}
		return reflect.ValueOf(i.Int64()).Convert(t), true
	case reflect.Uint, reflect.Uint8, reflect.Uint16, reflect.Uint32, reflect.Uint64:
		i, ok := new(big.Int).SetString(v, 10)
		if !ok || !i.IsUint64() {
			return reflect.Value{}, false
		}
		return reflect.ValueOf(i.Uint64()).Convert(t), true
	}
	return reflect.Value{}, false
}

func reflectResult(v reflect.Value) string {
	switch v.Kind() {
	case reflect.String:
		return "s:" + v.String()
	case reflect.Bool:
		return strconv.FormatBool(v.Bool())
	case reflect.Int, reflect.Int8, reflect.Int16, reflect.Int32, reflect.Int64:
		return strconv.FormatInt(v.Int(), 10)
	}
	return strconv.FormatUint(v.Uint(), 10)
}

func extNative(name string) func(args []string) (string, bool) {
	f, ok := extFuncs[name]
	if !ok {
		return nil
	}
	fv := reflect.ValueOf(f)
	ft := fv.Type()
	return func(args []string) (res string, ok bool) {
		defer func() {
			if recover() != nil {
				ok = false
			}
		}()
		if len(args) != ft.NumIn() {
			return "", false
		}
		in := make([]reflect.Value, len(args))
		for i := range args {
			v, ok := reflectArg(ft.In(i), args[i])
			if !ok {
				return "", false
			}
			in[i] = v
		}
		out := fv.Call(in)
		return reflectResult(out[0]), true
	}
}

func termModelValue(t *Term) string {
	switch t.Sort {
	case SBool:
		return strconv.FormatBool(t.B)
	case SInt:
		return t.I.String()
	}
	return "s:" + t.S
}

// extCall models a call to a registered pure library function.
func (p *Path) extCall(name string, args []Value) (Value, bool) {
	if (name == "strings.IndexByte" || name == "strings.IndexRune") && len(args) == 2 {
		// a constant ASCII byte/rune: the same as strings.Index with a one-byte separator (whose contract is axiomatised)
		if c, ok := args[1].(*Term); ok && c.IsConst() && c.Sort == SInt && c.Int64() >= 0 && c.Int64() < 128 {
			return p.extCall("strings.Index", []Value{args[0], mkStr(string(rune(c.Int64())))})
		}
	}
	f, ok := extFuncs[name]
	if !ok {
		return nil, false
	}
	ft := reflect.TypeOf(f)
	if ft.NumOut() != 1 || ft.IsVariadic() || len(args) != ft.NumIn() {
		return nil, false
	}
	rs, ok := sortOfReflect(ft.Out(0))
	if !ok {
		return nil, false
	}
	var ts []*Term
	allConst := true
	for i, a := range args {
		t, ok := a.(*Term)
		if !ok {
			return nil, false
		}
		if s, ok := sortOfReflect(ft.In(i)); !ok || s != t.Sort {
			return nil, false
		}
		if !t.IsConst() {
			allConst = false
		}
		ts = append(ts, t)
	}
	if allConst {
		var vals []string
		for _, t := range ts {
			vals = append(vals, termModelValue(t))
		}
		if r, ok := extNative(name)(vals); ok {
			return valueTerm(r, rs), true
		}
		return nil, false
	}
	return mkUF("ext:"+name, rs, ts...), true
}

