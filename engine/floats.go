package main

// Opaque floating point: a float64/float32 value is identified by its IEEE bits (an Int).
// Operations on symbolic floats become uninterpreted functions over the bits whose real
// values are supplied natively during model validation/refinement (no FP theory is used).

import (
	"fmt"
	"go/token"
	"go/types"
	"math"
	"math/big"
	"strconv"
)

func floatBitsTerm(f FloatVal) *Term {
	if !f.isC {
		return f.bits
	}
	if f.kind == types.Float32 {
		return mkBig(new(big.Int).SetUint64(uint64(math.Float32bits(float32(f.cf)))))
	}
	return mkBig(new(big.Int).SetUint64(math.Float64bits(f.cf)))
}

func bitsToF64(s string, kind types.BasicKind) (float64, bool) {
	i, ok := new(big.Int).SetString(s, 10)
	if !ok || !i.IsUint64() {
		return 0, false
	}
	if kind == types.Float32 {
		if i.Uint64() > math.MaxUint32 {
			return 0, false
		}
		return float64(math.Float32frombits(uint32(i.Uint64()))), true
	}
	return math.Float64frombits(i.Uint64()), true
}

func f64ToBits(f float64, kind types.BasicKind) string {
	if kind == types.Float32 {
		return strconv.FormatUint(uint64(math.Float32bits(float32(f))), 10)
	}
	return strconv.FormatUint(math.Float64bits(f), 10)
}

var floatUnary = map[string]func(float64) float64{
	"math.Trunc": math.Trunc, "math.Abs": math.Abs, "math.Floor": math.Floor, "math.Ceil": math.Ceil,
	"math.Round": math.Round, "math.Sqrt": math.Sqrt, "math.Log10": math.Log10,
}

func (p *Path) floatBinop(op token.Token, a, b FloatVal) (Value, bool) {
	if a.kind == types.Complex64 || a.kind == types.Complex128 {
		return nil, false
	}
	kind := a.kind
	suffix := "64"
	if kind == types.Float32 {
		suffix = "32"
	}
	ba, bb := floatBitsTerm(a), floatBitsTerm(b)
	switch op {
	case token.LSS, token.LEQ, token.GTR, token.GEQ, token.EQL, token.NEQ:
		name := map[token.Token]string{token.LSS: "lt", token.LEQ: "le", token.GTR: "gt", token.GEQ: "ge", token.EQL: "eq", token.NEQ: "ne"}[op]
		if a.isC && b.isC {
			r, _ := floatCmpNative(name, a.cf, b.cf)
			return mkBool(r), true
		}
		return mkUF("f"+suffix+":"+name, SBool, ba, bb), true
	case token.ADD, token.SUB, token.MUL, token.QUO:
		name := map[token.Token]string{token.ADD: "add", token.SUB: "sub", token.MUL: "mul", token.QUO: "quo"}[op]
		if a.isC && b.isC {
			return FloatVal{kind: kind, isC: true, cf: floatArithNative(name, a.cf, b.cf, kind)}, true
		}
		return FloatVal{kind: kind, bits: mkUF("f"+suffix+":"+name, SInt, ba, bb)}, true
	}
	return nil, false
}

func floatCmpNative(name string, x, y float64) (bool, bool) {
	switch name {
	case "lt":
		return x < y, true
	case "le":
		return x <= y, true
	case "gt":
		return x > y, true
	case "ge":
		return x >= y, true
	case "eq":
		return x == y, true
	case "ne":
		return x != y, true
	}
	return false, false
}

func floatArithNative(name string, x, y float64, kind types.BasicKind) float64 {
	var r float64
	switch name {
	case "add":
		r = x + y
	case "sub":
		r = x - y
	case "mul":
		r = x * y
	case "quo":
		r = x / y
	}
	if kind == types.Float32 {
		r = float64(float32(r))
	}
	return r
}

// floatStub: math.* functions on opaque floats.
func (p *Path) floatStub(name string, args []Value) (Value, bool) {
	if f, ok := floatUnary[name]; ok && len(args) == 1 {
		a, isF := args[0].(FloatVal)
		if !isF {
			return nil, false
		}
		if a.isC {
			return FloatVal{kind: types.Float64, isC: true, cf: f(a.cf)}, true
		}
		return FloatVal{kind: types.Float64, bits: mkUF("fu:"+name, SInt, a.bits)}, true
	}
	switch name {
	case "strconv.FormatFloat":
		a, isF := args[0].(FloatVal)
		fm, ok1 := args[1].(*Term)
		pr, ok2 := args[2].(*Term)
		bs, ok3 := args[3].(*Term)
		if !isF || !ok1 || !ok2 || !ok3 || !fm.IsConst() || !pr.IsConst() || !bs.IsConst() {
			return nil, false
		}
		if a.isC {
			return mkStr(strconv.FormatFloat(a.cf, byte(fm.Int64()), int(pr.Int64()), int(bs.Int64()))), true
		}
		return mkUF(fmt.Sprintf("ff:%d:%d:%d", fm.Int64(), pr.Int64(), bs.Int64()), SStr, a.bits), true
	case "strconv.FormatComplex":
		a, isF := args[0].(FloatVal)
		fm, ok1 := args[1].(*Term)
		pr, ok2 := args[2].(*Term)
		bs, ok3 := args[3].(*Term)
		if !isF || !ok1 || !ok2 || !ok3 || !fm.IsConst() || !pr.IsConst() || !bs.IsConst() {
			return nil, false
		}
		if bs.Int64() != 64 && bs.Int64() != 128 {
			return nil, false // the real function panics
		}
		if a.isC {
			return mkStr(strconv.FormatComplex(a.cc, byte(fm.Int64()), int(pr.Int64()), int(bs.Int64()))), true
		}
		return mkUF(fmt.Sprintf("fc:%d:%d:%d", fm.Int64(), pr.Int64(), bs.Int64()), SStr, a.bits, a.bits2), true
	case "math.IsNaN":
		a := args[0].(FloatVal)
		if a.isC {
			return mkBool(math.IsNaN(a.cf)), true
		}
		return mkUF("fp:IsNaN", SBool, a.bits), true
	case "math.IsInf":
		a := args[0].(FloatVal)
		s, ok := args[1].(*Term)
		if !ok || !s.IsConst() {
			return nil, false
		}
		if a.isC {
			return mkBool(math.IsInf(a.cf, int(s.Int64()))), true
		}
		return mkUF(fmt.Sprintf("fp:IsInf%d", s.Int64()), SBool, a.bits), true
	case "math.Signbit":
		a := args[0].(FloatVal)
		if a.isC {
			return mkBool(math.Signbit(a.cf)), true
		}
		return mkUF("fp:Signbit", SBool, a.bits), true
	case "math.Float64bits":
		a := args[0].(FloatVal)
		return floatBitsTerm(a), true
	}
	return nil, false
}

func floatNativeUF(name string) func(args []string) (string, bool) {
	kindOf := func(n string) types.BasicKind {
		if len(n) > 3 && n[:3] == "f32" {
			return types.Float32
		}
		return types.Float64
	}
	if len(name) > 4 && (name[:4] == "f64:" || name[:4] == "f32:") {
		op := name[4:]
		kind := kindOf(name)
		return func(a []string) (string, bool) {
			x, ok1 := bitsToF64(a[0], kind)
			y, ok2 := bitsToF64(a[1], kind)
			if !ok1 || !ok2 {
				return "", false
			}
			if r, ok := floatCmpNative(op, x, y); ok {
				return strconv.FormatBool(r), true
			}
			return f64ToBits(floatArithNative(op, x, y, kind), kind), true
		}
	}
	if len(name) > 3 && name[:3] == "fu:" {
		f := floatUnary[name[3:]]
		if f == nil {
			return nil
		}
		return func(a []string) (string, bool) {
			x, ok := bitsToF64(a[0], types.Float64)
			if !ok {
				return "", false
			}
			return f64ToBits(f(x), types.Float64), true
		}
	}
	if len(name) > 3 && name[:3] == "ff:" {
		var fm, pr, bs int
		if _, err := fmt.Sscanf(name, "ff:%d:%d:%d", &fm, &pr, &bs); err != nil {
			return nil
		}
		return func(a []string) (string, bool) {
			x, ok := bitsToF64(a[0], types.Float64)
			if !ok {
				return "", false
			}
			return "s:" + strconv.FormatFloat(x, byte(fm), pr, bs), true
		}
	}
	if len(name) > 3 && name[:3] == "fc:" {
		var fm, pr, bs int
		if _, err := fmt.Sscanf(name, "fc:%d:%d:%d", &fm, &pr, &bs); err != nil {
			return nil
		}
		return func(a []string) (string, bool) {
			x, ok1 := bitsToF64(a[0], types.Float64)
			y, ok2 := bitsToF64(a[1], types.Float64)
			if !ok1 || !ok2 {
				return "", false
			}
			return "s:" + strconv.FormatComplex(complex(x, y), byte(fm), pr, bs), true
		}
	}
	if len(name) > 3 && name[:3] == "fp:" {
		return func(a []string) (string, bool) {
			x, ok := bitsToF64(a[0], types.Float64)
			if !ok {
				return "", false
			}
			switch name {
			case "fp:IsNaN":
				return strconv.FormatBool(math.IsNaN(x)), true
			case "fp:IsInf0":
				return strconv.FormatBool(math.IsInf(x, 0)), true
			case "fp:IsInf1":
				return strconv.FormatBool(math.IsInf(x, 1)), true
			case "fp:IsInf-1":
				return strconv.FormatBool(math.IsInf(x, -1)), true
			case "fp:Signbit":
				return strconv.FormatBool(math.Signbit(x)), true
			}
			return "", false
		}
	}
	return nil
}
