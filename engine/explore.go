package main

// Path exploration: decision prefixes, a shared work stack, path conditions with
// independence slicing, obligations.

import (
	"fmt"
	"os"
	"sort"
	"strings"
	"sync"
	"sync/atomic"
	"time"

	"golang.org/x/tools/go/ssa"
)

type decompEntry struct {
	a, b *Term
	alen int64 // known constant length of a, or -1
}

type Obs struct {
	Label string
	Val   *Term
}

type Oblig struct {
	Harness string
	Label   string
	PathID  string
	Status  string // folded, discharged, violated-candidate, inconclusive
	Solvers map[string]string
	Cond    string
	Model   map[string]string // nondet name -> value (canonical text)
	Choices map[string]int
	Reason  string
	Ambient bool
	Known   bool
	Finding string
	Extra   bool // an additional counterexample for an obligation already counted
}

type Leaf struct {
	Harness  string
	PathID   string
	Outcome  string // ok, panic, assume, unsupported, unwind, infeasible, steps
	Msg      string
	PC       []*Term
	Obs      []Obs
	Choices  map[string]int
	Nondets  map[string]*Term
	Ambient  bool
	Steps    int
	Decs     int
	Reached  []string
	Effects  []string
	GWrites  []string
	Notes    []string
	Shadow   []*Term
	WDefs    map[*Term]*Term
	DetObs   []Obs
	Trail    []int
	TrailAmb []bool // per decision: a schedule choice (map order, capacity) rather than an input split
}

type Path struct {
	ex     *Explorer
	ss     *SolverSet
	prefix []int
	trail  []int
	trailAmb []bool
	cursor int

	pc    []*Term
	pcSet map[int]bool

	bufs     map[*Value]*Term
	nondets  map[string]*Term
	ndOrder  []string
	choices  map[string]int
	fresh    int
	steps    int
	allocs   int
	depth    int
	decs     int
	globals  map[*ssa.Global]*Value
	stack    []*ssa.Function
	decomp   map[*Term][]decompEntry
	obs      []Obs
	reached  []string
	effects  []string
	gwrites  []string
	rangeOblig []*Term

	summaries   map[string]bool
	orderInsens map[string]bool
	mapOrderAll bool
	capFork     bool
	unwind      int
	ambient     bool
	mapSerial   int
	errSerial   int
	tier        int
	trackGlobals bool
	globalObjs  map[interface{}]string
	initDone    bool
	obligs      []*Oblig
	keptUnknown int
	inInit      bool
	syncMaps    map[*Value]*Map
	notes       []string
	cmdOutput   *Term
	writes      int
	onceDone    map[*Value]bool
	pools       map[*Value][]Value
	fmtCalls    int
	shadow      []*Term          // natively evaluable equivalents of witness-carrying conjuncts
	wdefs       map[*Term]*Term // witness variable -> defining term
	detObs      []Obs
	exactTables bool
	unwindAssume bool
	effectArgs  [][]*Term
	fs          []*fsEntry
	fsOps       int
	fsFailed    bool
	effectFail  []*Term
	lastPanic   *Term
	globalCells map[*Value]string
	globalMaps  map[*Map]string
}

type Explorer struct {
	prog     *ssa.Program
	pkgs     map[*ssa.Package]bool
	harness  *ssa.Function
	name     string
	tier     int
	maxSteps int
	feasTO   int
	obligTO  int
	useCVC   bool

	mu      sync.Mutex
	stack   [][]int
	active  int
	cond    *sync.Cond
	leaves  []*Leaf
	obligs  []*Oblig
	encoded map[string]bool
	decisions int64
	paths     int64
	maxPaths  int64
	aborted   bool
	siteTime  map[string]time.Duration
	deadline  time.Time // exploration stops here; what was found so far is still processed
	timedOut  bool
	keptUnknown int64
	noSlicing   bool
	siteCands   map[string]int
}

func (ex *Explorer) interpretable(fn *ssa.Function) bool {
	if fn.Pkg == nil {
		// synthetic wrapper/bound/thunk: allowed when it belongs to an encoded package's method
		if fn.Synthetic != "" {
			return true
		}
		if par := fn.Parent(); par != nil {
			return ex.interpretable(par)
		}
		return false
	}
	return ex.pkgs[fn.Pkg]
}

// siteBudget: at most 3 counterexample searches per assertion site and harness.
func (ex *Explorer) siteBudget(label string) bool {
	ex.mu.Lock()
	defer ex.mu.Unlock()
	if ex.siteCands == nil {
		ex.siteCands = map[string]int{}
	}
	ex.siteCands[label]++
	return ex.siteCands[label] <= 3
}

func (ex *Explorer) siteBudgetN(key string, n int) bool {
	ex.mu.Lock()
	defer ex.mu.Unlock()
	if ex.siteCands == nil {
		ex.siteCands = map[string]int{}
	}
	ex.siteCands[key]++
	return ex.siteCands[key] <= n
}

func (ex *Explorer) siteCount(key string) int {
	ex.mu.Lock()
	defer ex.mu.Unlock()
	return ex.siteCands[key]
}

func (ex *Explorer) siteTimeLeft(key string) bool {
	ex.mu.Lock()
	defer ex.mu.Unlock()
	limit := 10 * time.Minute
	if ex.tier > 0 {
		limit = 30 * time.Minute
	}
	return ex.siteTime[key] < limit
}

func (ex *Explorer) siteTimeAdd(key string, d time.Duration) {
	ex.mu.Lock()
	defer ex.mu.Unlock()
	if ex.siteTime == nil {
		ex.siteTime = map[string]time.Duration{}
	}
	ex.siteTime[key] += d
}

func choiceKey(ch map[string]int) string {
	var ks []string
	for k, v := range ch {
		ks = append(ks, fmt.Sprintf("%s=%d", k, v))
	}
	sort.Strings(ks)
	return strings.Join(ks, ",")
}

func (ex *Explorer) noteEncoded(fn *ssa.Function) {
	ex.mu.Lock()
	ex.encoded[fn.String()] = true
	ex.mu.Unlock()
}

func (ex *Explorer) enqueue(prefix []int) {
	ex.mu.Lock()
	ex.stack = append(ex.stack, prefix)
	ex.mu.Unlock()
	ex.cond.Signal()
}

// run explores all paths of the harness with nWorkers workers.
func (ex *Explorer) run(nWorkers int) {
	ex.cond = sync.NewCond(&ex.mu)
	ex.stack = [][]int{{}}
	var wg sync.WaitGroup
	if os.Getenv("GOSMT_PROGRESS") != "" {
		stop := make(chan bool)
		defer close(stop)
		go func() {
			t0 := time.Now()
			for {
				select {
				case <-stop:
					return
				case <-time.After(5 * time.Second):
					ex.mu.Lock()
					oc := map[string]int{}
					for _, l := range ex.leaves {
						oc[l.Outcome]++
					}
					fmt.Fprintf(os.Stderr, "[progress %s %.0fs] paths=%d stack=%d active=%d leaves=%v obligs=%d queries=%d abstractHits=%d unknown=%d\n", ex.name, time.Since(t0).Seconds(), ex.paths, len(ex.stack), ex.active, oc, len(ex.obligs), stats.Queries, stats.AbstractHits, stats.Unknown)
					ex.mu.Unlock()
				}
			}
		}()
	}
	for w := 0; w < nWorkers; w++ {
		wg.Add(1)
		go func() {
			defer wg.Done()
			for {
				ex.mu.Lock()
				for len(ex.stack) == 0 && ex.active > 0 {
					ex.cond.Wait()
				}
				if len(ex.stack) == 0 && ex.active == 0 {
					ex.mu.Unlock()
					ex.cond.Broadcast()
					return
				}
				prefix := ex.stack[len(ex.stack)-1]
				ex.stack = ex.stack[:len(ex.stack)-1]
				ex.active++
				ex.mu.Unlock()

				if over := !ex.deadline.IsZero() && time.Now().After(ex.deadline); atomic.AddInt64(&ex.paths, 1) > ex.maxPaths || over {
					ex.mu.Lock()
					ex.aborted = true
					if over {
						ex.timedOut = true
					}
					ex.active--
					ex.stack = nil
					ex.mu.Unlock()
					ex.cond.Broadcast()
					continue
				}
				ss := borrowSolvers()
				p := newPath(ex, ss, prefix)
				leaf := p.execute()
				returnSolvers(ss)
				ex.mu.Lock()
				ex.leaves = append(ex.leaves, leaf)
				ex.obligs = append(ex.obligs, p.obligs...)
				ex.active--
				ex.mu.Unlock()
				atomic.AddInt64(&ex.decisions, int64(p.decs))
				atomic.AddInt64(&ex.keptUnknown, int64(p.keptUnknown))
				ex.cond.Broadcast()
			}
		}()
	}
	wg.Wait()
}

func newPath(ex *Explorer, ss *SolverSet, prefix []int) *Path {
	return &Path{
		ex: ex, ss: ss, prefix: prefix,
		pcSet:   map[int]bool{},
		bufs:    map[*Value]*Term{},
		nondets: map[string]*Term{},
		choices: map[string]int{},
		globals: map[*ssa.Global]*Value{},
		decomp:  map[*Term][]decompEntry{},
		wdefs:   map[*Term]*Term{},
		summaries: map[string]bool{}, orderInsens: map[string]bool{},
		mapOrderAll: true,
		unwind:  12,
		tier:    ex.tier,
		globalObjs: map[interface{}]string{},
		lastPanic: mkStr(""),
	}
}

func (p *Path) pathID() string {
	var sb strings.Builder
	for i, c := range p.trail {
		if i > 0 {
			sb.WriteByte('.')
		}
		fmt.Fprintf(&sb, "%d", c)
	}
	return sb.String()
}

func (p *Path) execute() (leaf *Leaf) {
	leaf = &Leaf{Harness: p.ex.name}
	defer func() {
		if r := recover(); r != nil {
			switch x := r.(type) {
			case progPanic:
				leaf.Outcome = "panic"
				leaf.Msg = x.msg
			case pathAbort:
				leaf.Outcome = x.kind
				leaf.Msg = x.msg
			default:
				leaf.Outcome = "engine-error"
				leaf.Msg = fmt.Sprintf("%v", r)
				if os.Getenv("GOSMT_DEBUG") != "" {
					panic(r)
				}
			}
		}
		leaf.PathID = p.pathID()
		leaf.PC = p.pc
		leaf.Obs = p.obs
		leaf.Choices = p.choices
		leaf.Nondets = p.nondets
		leaf.Ambient = p.ambient
		leaf.Steps = p.steps
		leaf.Decs = p.decs
		leaf.Reached = p.reached
		leaf.Effects = p.effects
		leaf.GWrites = p.gwrites
		leaf.Notes = p.notes
		leaf.Shadow = p.shadow
		leaf.WDefs = p.wdefs
		leaf.DetObs = p.detObs
		leaf.Trail = p.trail
		leaf.TrailAmb = p.trailAmb
	}()
	p.runInit()
	p.callFunction(p.ex.harness, nil, nil)
	leaf.Outcome = "ok"
	p.checkRangeObligs()
	return
}

// runInit executes the package initialisers of the encoded packages concretely.
func (p *Path) runInit() {
	for pk := range p.ex.pkgs {
		if init := pk.Func("init"); init != nil {
			p.inInit = true
			p.callFunction(init, nil, nil)
			p.inInit = false
		}
	}
	p.initDone = true
	if p.trackGlobals || true {
		p.markGlobals()
	}
}

func (p *Path) checkRangeObligs() {
	if len(p.rangeOblig) == 0 {
		return
	}
	bad := mkNot(mkAnd(p.rangeOblig...))
	if bad.IsFalse() {
		return
	}
	ok, _ := p.ss.feasible(append(p.sliceFor(bad), bad), p.ex.feasTO)
	if ok {
		panic(pathAbort{kind: "unsupported", msg: "integer value may leave its Go type's range (outside the integer model)"})
	}
}

// ---- path condition

func (p *Path) assume(t *Term) {
	if t.IsTrue() {
		return
	}
	if t.Op == "and" {
		for _, a := range t.Args {
			p.assume(a)
		}
		return
	}
	if p.pcSet[t.id] {
		return
	}
	p.pcSet[t.id] = true
	p.pc = append(p.pc, t)
}

func termFV(t *Term) []int {
	t.fvOnce.Do(func() {
		set := map[int]bool{}
		var walk func(x *Term)
		seen := map[*Term]bool{}
		walk = func(x *Term) {
			if seen[x] {
				return
			}
			seen[x] = true
			switch x.Op {
			case "var":
				set[x.id] = true
			case "uf":
				set[-ufNameID(x.Name)] = true
			}
			for _, a := range x.Args {
				walk(a)
			}
		}
		walk(t)
		for k := range set {
			t.fv = append(t.fv, k)
		}
		sort.Ints(t.fv)
	})
	return t.fv
}

var (
	ufNameMu  sync.Mutex
	ufNameTab = map[string]int{}
)

func ufNameID(n string) int {
	ufNameMu.Lock()
	defer ufNameMu.Unlock()
	if id, ok := ufNameTab[n]; ok {
		return id
	}
	id := len(ufNameTab) + 1
	ufNameTab[n] = id
	return id
}

// sliceFor returns the PC conjuncts transitively sharing variables with t.
func (p *Path) sliceFor(t *Term) []*Term {
	if p.ex.noSlicing {
		return append([]*Term{}, p.pc...)
	}
	return sliceTerms(p.pc, t)
}

func sliceTerms(pc []*Term, t *Term) []*Term {
	want := map[int]bool{}
	for _, v := range termFV(t) {
		want[v] = true
	}
	used := make([]bool, len(pc))
	var out []*Term
	for changed := true; changed; {
		changed = false
		for i, c := range pc {
			if used[i] {
				continue
			}
			fv := termFV(c)
			hit := len(fv) == 0
			for _, v := range fv {
				if want[v] {
					hit = true
					break
				}
			}
			if hit {
				used[i] = true
				out = append(out, c)
				for _, v := range fv {
					if !want[v] {
						want[v] = true
						changed = true
					}
				}
			}
		}
	}
	return out
}

func (p *Path) feasibleWith(t *Term) bool {
	if p.ss.abstractUnsat(p.pc, t, 1500) {
		return false
	}
	ok, definite := p.ss.feasible(append(p.sliceFor(t), t), p.ex.feasTO)
	if ok && !definite {
		p.keptUnknown++
	}
	return ok
}

// decide records/replays a decision among n options.
func (p *Path) decide(n int, label string, feas func(i int) bool) int {
	p.trailAmb = append(p.trailAmb, label == "map-order" || label == "append-capacity")
	if p.cursor < len(p.prefix) {
		ch := p.prefix[p.cursor]
		p.cursor++
		p.trail = append(p.trail, ch)
		return ch
	}
	p.decs++
	var feasible []int
	for i := 0; i < n; i++ {
		if feas == nil || feas(i) {
			feasible = append(feasible, i)
		}
	}
	if len(feasible) == 0 {
		panic(pathAbort{kind: "infeasible", msg: "no feasible option at " + label})
	}
	ch := feasible[0]
	for _, alt := range feasible[1:] {
		np := make([]int, len(p.trail)+1)
		copy(np, p.trail)
		np[len(p.trail)] = alt
		p.ex.enqueue(np)
	}
	p.trail = append(p.trail, ch)
	p.cursor++
	return ch
}

// branch decides a symbolic condition and extends the path condition.
func (p *Path) branch(c *Term, label string) bool {
	if c.IsConst() {
		return c.B
	}
	if p.pcSet[c.id] {
		return true
	}
	nc := mkNot(c)
	if p.pcSet[nc.id] {
		return false
	}
	if c.Op == "and" {
		all := true
		for _, a := range c.Args {
			if !p.pcSet[a.id] {
				all = false
				break
			}
		}
		if all {
			return true
		}
	}
	if lt := c; lt.Op == "str.<" || (lt.Op == "not" && lt.Args[0].Op == "str.<") {
		return p.branchOrder(c)
	}
	firstFeasible := -1
	ch := p.decide(2, label, func(i int) bool {
		if i == 0 {
			if p.feasibleWith(c) {
				firstFeasible = 1
				return true
			}
			firstFeasible = 0
			return false
		}
		if firstFeasible == 0 {
			return true // PC is feasible and c is not, so ¬c is
		}
		return p.feasibleWith(nc)
	})
	if ch == 0 {
		p.assume(c)
		return true
	}
	p.assume(nc)
	return false
}

// ltFormula: a < b (bytewise) with fresh witnesses, as word equations (z3 cannot decide str.<).
func (p *Path) ltFormula(a, b *Term) *Term {
	u := p.freshVar("u", SStr)
	c1, r1 := p.freshVar("c", SStr), p.freshVar("r", SStr)
	c2, r2 := p.freshVar("c", SStr), p.freshVar("r", SStr)
	one := mkInt(1)
	prefix := mkAnd(mkEq(a, u), mkEq(b, mkConcat(u, c2, r2)), mkEq(mkLen(c2), one))
	differ := mkAnd(mkEq(a, mkConcat(u, c1, r1)), mkEq(b, mkConcat(u, c2, r2)), mkEq(mkLen(c1), one), mkEq(mkLen(c2), one),
		mkLt(mkApp("str.to_code", SInt, c1), mkApp("str.to_code", SInt, c2)))
	return mkOr(prefix, differ)
}

// branchOrder decides a lexicographic comparison by a three-way split (a<b, a=b, b<a),
// each side assumed in a positive, witness-carrying form.
func (p *Path) branchOrder(c *Term) bool {
	neg := c.Op == "not"
	lt := c
	if neg {
		lt = c.Args[0]
	}
	a, b := lt.Args[0], lt.Args[1]
	// fresh variables must be drawn deterministically: create all formulas up front
	fLT := p.ltFormula(a, b)
	fEQ := mkEq(a, b)
	fGT := p.ltFormula(b, a)
	opts := []*Term{fLT, fEQ, fGT}
	ch := p.decide(3, "order", func(i int) bool { return p.feasibleWith(opts[i]) })
	p.assume(opts[ch])
	switch ch {
	case 0:
		p.shadow = append(p.shadow, mkApp("str.<", SBool, a, b))
	case 1:
		p.shadow = append(p.shadow, mkEq(a, b))
	default:
		p.shadow = append(p.shadow, mkApp("str.<", SBool, b, a))
	}
	res := ch == 0
	if res {
		p.pcSet[lt.id] = true
	} else {
		p.pcSet[mkNot(lt).id] = true
	}
	// the symmetric literal is decided as well
	rev := mkStrLt(b, a)
	if !rev.IsConst() {
		if ch == 2 {
			p.pcSet[rev.id] = true
		} else {
			p.pcSet[mkNot(rev).id] = true
		}
	}
	if neg {
		return !res
	}
	return res
}

func (p *Path) freshVar(prefix string, s Sort) *Term {
	p.fresh++
	return mkVar(fmt.Sprintf("%s!%d", prefix, p.fresh), s)
}

// ---- obligations

func (p *Path) namedModelTerms() ([]string, []*Term) {
	var names []string
	var ts []*Term
	for _, n := range p.ndOrder {
		names = append(names, n)
		ts = append(ts, p.nondets[n])
	}
	return names, ts
}

func (p *Path) assertOblig(cond *Term, label string) {
	p.assertObligKnown(cond, label, tFalse, "")
}

// assertObligKnown: `known` describes inputs covered by a listed known finding.
// The obligation is cond ∨ known; separately, ¬cond ∧ known is probed so that the
// finding is reported (KNOWN-FINDING) while it still reproduces.
func (p *Path) assertObligKnown(cond *Term, label string, known *Term, finding string) {
	if finding != "" {
		if _, open := knownOpen[finding]; !open {
			known = tFalse
		}
	}
	ob := &Oblig{Harness: p.ex.name, Label: label, PathID: p.pathID(), Ambient: p.ambient}
	p.obligs = append(p.obligs, ob)
	p.reached = append(p.reached, label)
	if !known.IsFalse() {
		hit := mkAnd(mkNot(cond), known)
		if !hit.IsFalse() {
			kb := &Oblig{Harness: p.ex.name, Label: label, PathID: p.pathID(), Ambient: p.ambient, Known: true, Finding: finding}
			v := p.ss.decide(append(p.sliceFor(hit), hit), nil, p.ex.obligTO, false)
			if v.Result == "sat" {
				p.refineAndRecord(kb, hit)
				if kb.Status == "violated-candidate" {
					p.obligs = append(p.obligs, kb)
				}
			}
		}
	}
	goal := mkOr(cond, known)
	if goal.IsTrue() || p.pcSet[goal.id] || p.pcSet[cond.id] {
		ob.Status = "folded"
		return
	}
	neg := mkNot(goal)
	ob.Cond = truncate(goal.String(), 400)
	if p.ss.abstractUnsat(p.pc, neg, 3000) {
		ob.Status = "discharged"
		ob.Solvers = map[string]string{"z3-5.1.0": "unsat", "z3-4.8.12": "unsat", "cvc5-1.0": "skipped", "note": "decided on the weakened query (UF applications abstracted)"}
		p.assume(goal)
		return
	}
	v := p.ss.decide(append(p.sliceFor(neg), neg), nil, p.ex.obligTO, p.ex.useCVC)
	if v.Result == "inconclusive" {
		// a loaded machine makes the cap a matter of scheduling: one more attempt with three times the cap
		v = p.ss.decide(append(p.sliceFor(neg), neg), nil, 3*p.ex.obligTO, true)
	}
	ob.Solvers = v.Solvers
	switch v.Result {
	case "unsat":
		ob.Status = "discharged"
	case "inconclusive":
		// undecided within the cap: a model search over preferred ("nice") inputs may still
		// exhibit a real counterexample
		if p.ex.siteBudget(label + "#undecided") {
			p.refineAndRecord(ob, neg) // an unsat here is one of the unrestricted query (level 2)
		} else {
			ob.Status = "inconclusive"
		}
		if ob.Status == "inconclusive" {
			ob.Reason = "no solver decided within the cap"
		}
	case "sat":
		bkey := label
		if p.ambient {
			// counterexamples that depend on a schedule choice (map order, capacity) may not
			// reproduce natively: they get their own budget so that deterministic ones are not starved
			bkey += "#schedule-dependent"
		}
		// one search per distinct vector of harness choices, at most 6 per assertion
		ckey := bkey + "#" + choiceKey(p.choices)
		// two searches per distinct vector of harness choices, at most 24 per assertion, and at most
		// ~4 minutes (12 in the thorough tier) of search time per assertion
		// (searches that end without a candidate do not use up the vector's share: up to 12 of them per assertion)
		if p.ex.siteCount(ckey) < 2 && p.ex.siteCount(bkey) < 24 && p.ex.siteCount(bkey+"#failed") < 12 && p.ex.siteTimeLeft(bkey) {
			t0 := time.Now()
			p.refineAndRecord(ob, neg)
			p.ex.siteTimeAdd(bkey, time.Since(t0))
			if ob.Status == "violated-candidate" {
				p.ex.siteBudgetN(ckey, 1)
				p.ex.siteBudgetN(bkey, 1)
			} else {
				p.ex.siteBudgetN(bkey+"#failed", 1)
			}
		} else {
			ob.Status = "violated-unrefined"
			ob.Choices = map[string]int{}
			for k, c := range p.choices {
				ob.Choices[k] = c
			}
		}
	}
	p.assume(goal)
}

type ModelResult struct {
	Status  string // sat (consistent with the real library on every UF application), unsat, inconclusive
	Model   map[string]string
	Extra   []string
	Solvers map[string]string
	By      string
	Rounds  int
	Reason  string
}

// solveModel finds a model of asserts whose UF applications agree with the real
// library functions (counterexample-guided refinement with ground facts).
// Preference levels: 0 = "nice" input strings (identifier-like, so that texts fed
// to the formatter tend to be real Go) plus battery points, 1 = battery points
// (inputs on which the real library values are already known), 2 = unconstrained.
// Only an unsat at level 2 is an unsat of the query itself.
func solveModel(ss *SolverSet, asserts []*Term, names []string, nts []*Term, extra []*Term, to int, useCVC bool) ModelResult {
	return solveModelB(ss, asserts, names, nts, extra, to, useCVC, time.Now().Add(10*time.Minute), 40)
}

var niceStrings = []string{"a", "b", "c", "x", "y", "", "\n", "a\nb", "p", "q", "a/d", "b/d", "c/d", "d"}

func solveModelB(ss *SolverSet, base []*Term, names []string, nts []*Term, extra []*Term, to int, useCVC bool, deadline time.Time, maxRounds int) ModelResult {
	return solveModelS(ss, base, nil, nil, names, nts, extra, to, useCVC, deadline, maxRounds)
}

// solveModelS: as solveModelB; shadow/wdefs make witness-carrying conjuncts evaluable for sampling.
func solveModelS(ss *SolverSet, base []*Term, shadow []*Term, wdefs map[*Term]*Term, names []string, nts []*Term, extra []*Term, to int, useCVC bool, deadline time.Time, maxRounds int) ModelResult {
	res := ModelResult{}
	total := 0
	named := map[*Term]bool{}
	for _, t := range nts {
		named[t] = true
	}
	sampled := false
	for level := 0; level <= 2; level++ {
		var pins []*Term
		if level == 0 && !sampled {
			// cheap first attempt: sample the finite domain of preferred inputs and validate each
			// candidate with the native evaluator; the solvers take over when this finds nothing
			sampled = true
			if m, ex, ok := sampleModel(base, shadow, wdefs, nts, extra, 4000, deadline); ok {
				res.Status = "sat"
				res.By = "sampling over preferred inputs, validated by native evaluation"
				res.Model = map[string]string{}
				for i, n := range names {
					res.Model[n] = m[i]
				}
				res.Extra = ex
				return res
			}
		}
		for round := 0; round < maxRounds; round++ {
			total++
			res.Rounds = total
			if time.Now().After(deadline) {
				res.Status = "inconclusive"
				res.Reason = "time budget for model search exhausted"
				return res
			}
			asserts := append([]*Term{}, base...)
			asserts = append(asserts, pins...)
			vars, ufs, seen := map[*Term]bool{}, map[*Term]bool{}, map[*Term]bool{}
			for _, a := range asserts {
				a.collect(vars, ufs, seen)
			}
			for _, a := range extra {
				a.collect(vars, ufs, seen)
			}
			if pins == nil && level <= 1 {
				var hs []*Term
				for u := range ufs {
					plain := true
					for _, a := range u.Args {
						if a.Op != "var" {
							plain = false
						}
					}
					if !plain {
						continue // hints only where the argument is an input itself
					}
					if h := batteryHint(u); h != nil && !h.IsFalse() {
						hs = append(hs, h)
					}
				}
				sort.Slice(hs, func(i, j int) bool { return hs[i].id < hs[j].id })
				asserts = append(asserts, hs...)
			}
			if pins == nil && level == 0 {
				for _, t := range nts {
					if t.Sort == SStr {
						var alts []*Term
						for _, s := range niceStrings {
							alts = append(alts, mkEq(t, mkStr(s)))
						}
						asserts = append(asserts, mkOr(alts...))
					}
				}
			}
			// values of every free variable (named inputs first, then witnesses introduced by the encoding)
			var allVars []*Term
			allVars = append(allVars, nts...)
			var others []*Term
			for v := range vars {
				if !named[v] {
					others = append(others, v)
				}
			}
			sort.Slice(others, func(i, j int) bool { return others[i].id < others[j].id })
			allVars = append(allVars, others...)
			v := solveByComponents(ss, asserts, allVars, to, useCVC)
			if os.Getenv("GOSMT_DEBUG_REFINE") != "" {
				fmt.Fprintf(os.Stderr, "model search level %d round %d pins=%v: %s %v\n", level, round, pins != nil, v.Result, v.Solvers)
			}
			if pins != nil && (v.Result != "sat" || v.Model == nil) {
				// the pinned inputs do not stay on this path under the real library values: unpin and go on
				pins = nil
				continue
			}
			if v.Result != "sat" || v.Model == nil {
				if level < 2 {
					break // next preference level
				}
				res.Solvers = v.Solvers
				if v.Result == "unsat" {
					res.Status = "unsat"
				} else {
					res.Status = "inconclusive"
					res.Reason = "no solver produced a model"
				}
				return res
			}
			res.Solvers = v.Solvers
			res.By = v.By
			// validate the model with the native evaluator (real library functions for every UF)
			env := newEvalEnv()
			for i, t := range allVars {
				env.vars[t] = v.Model[i]
			}
			all, ok, ff := env.evalAll(base)
			if os.Getenv("GOSMT_DEBUG_REFINE") != "" && ff != nil {
				fmt.Fprintf(os.Stderr, "   native evaluation: first false conjunct %s\n", truncate(ff.String(), 300))
			}
			// whatever the outcome, the real values of the applications met are facts
			learned := 0
			for app, args := range env.apps {
				if addGroundFact(app, args, env.appv[app]) {
					learned++
				}
			}
			if ok && all {
				ex, ok2 := env.evalStrings(extra)
				if ok2 {
					res.Status = "sat"
					res.Model = map[string]string{}
					for i, n := range names {
						res.Model[n] = v.Model[i]
					}
					res.Extra = ex
					return res
				}
			}
			if learned == 0 && pins != nil {
				// nothing new to learn with these inputs: they do not satisfy the path under the real library
				pins = nil
				if level < 2 {
					break
				}
				continue
			}
			// keep the inputs, let the solver recompute everything that depends on the corrected values
			pins = nil
			for i, t := range nts {
				pins = append(pins, mkEq(t, valueTerm(v.Model[i], t.Sort)))
			}
		}
	}
	res.Status = "inconclusive"
	res.Reason = "UF refinement against the real library did not converge"
	return res
}

// solveByComponents splits the assertions into groups that share no variable, solves each
// group on its own (small queries) and merges the models. Uninterpreted functions do not
// link groups here: the merged model is validated afterwards with the real functions.
func solveByComponents(ss *SolverSet, asserts []*Term, allVars []*Term, to int, useCVC bool) Verdict {
	varsOf := func(t *Term) []int {
		var out []int
		for _, v := range termFV(t) {
			if v > 0 {
				out = append(out, v)
			}
		}
		return out
	}
	parent := map[int]int{}
	var find func(x int) int
	find = func(x int) int {
		if p, ok := parent[x]; ok && p != x {
			r := find(p)
			parent[x] = r
			return r
		}
		parent[x] = x
		return x
	}
	for _, a := range asserts {
		vs := varsOf(a)
		for i := 1; i < len(vs); i++ {
			parent[find(vs[i])] = find(vs[0])
		}
		if len(vs) == 1 {
			find(vs[0])
		}
	}
	groups := map[int][]*Term{}
	var ground []*Term
	for _, a := range asserts {
		vs := varsOf(a)
		if len(vs) == 0 {
			ground = append(ground, a)
			continue
		}
		r := find(vs[0])
		groups[r] = append(groups[r], a)
	}
	gvars := map[int][]*Term{}
	for _, v := range allVars {
		r := find(v.id)
		gvars[r] = append(gvars[r], v)
	}
	out := Verdict{Result: "sat", Solvers: map[string]string{}}
	vals := map[*Term]string{}
	var roots []int
	for r := range gvars {
		roots = append(roots, r)
	}
	for r := range groups {
		if _, ok := gvars[r]; !ok {
			roots = append(roots, r)
		}
	}
	sort.Ints(roots)
	first := true
	for _, r := range roots {
		as := groups[r]
		if first {
			as = append(append([]*Term{}, as...), ground...)
			first = false
		}
		if len(as) == 0 {
			// unconstrained variables: any value
			for _, v := range gvars[r] {
				switch v.Sort {
				case SStr:
					vals[v] = "s:"
				case SInt:
					vals[v] = "0"
				default:
					vals[v] = "false"
				}
			}
			continue
		}
		v := ss.decideF(as, gvars[r], to, useCVC, true)
		if os.Getenv("GOSMT_DEBUG_REFINE") == "2" {
			q := &Query{Asserts: as, GetValues: gvars[r], Facts: true}
			os.WriteFile(fmt.Sprintf("/tmp/comp_%d.smt2", r), []byte("(set-logic ALL)\n"+q.body()+"(check-sat)\n"), 0644)
			fmt.Fprintf(os.Stderr, "   component %d: %d asserts %d vars -> %s\n", r, len(as), len(gvars[r]), v.Result)
		}
		for k, s := range v.Solvers {
			if out.Solvers[k] == "" || s != "sat" {
				out.Solvers[k] = s
			}
		}
		if v.Result == "sat" && v.Model == nil && len(gvars[r]) == 0 {
			v.Model = []string{}
		}
		if v.Result != "sat" || v.Model == nil {
			out.Result = v.Result
			if v.Result == "sat" {
				out.Result = "inconclusive"
			}
			return out
		}
		out.By = v.By
		for i, x := range gvars[r] {
			vals[x] = v.Model[i]
		}
	}
	for _, v := range allVars {
		out.Model = append(out.Model, vals[v])
	}
	if out.Model == nil {
		out.Model = []string{}
	}
	return out
}

// sampleSeed perturbs the pseudo-random sampling (VERIF_SEED; 1 by default)
var sampleSeed uint64 = 1

var sampleStrings = []string{"a", "b", "c", "d", "x", "y", "p", "q", "", "\n", "a\nb", "\"", "`", "\\", "a/d", "b/d", "c/d", "/d", "/go", " ", "1", "a1", "a\r\nb", "math/rand/v2", "//", "/*", "*/", "\xff", "\x00"}
var identStrings = []string{"a", "b", "c", "d", "x", "y", "p", "q", "a1", "k", "v", "m"}

// identifier-like texts first, then the rest
var sampleStringsAll = func() []string {
	seen := map[string]bool{}
	var out []string
	for _, l := range [][]string{identStrings, sampleStrings} {
		for _, x := range l {
			if !seen[x] {
				seen[x] = true
				out = append(out, x)
			}
		}
	}
	return out
}()

var sampleInts = func() []string {
	out := []string{"0", "1", "2", "3", "255", "-1", "65", "128", "1000000"}
	for _, f := range []float64{1, -1, 1.5, -0.5, 100, 1e6, -1e6, -2.5e6, 1e20, -1e20, 1e21, 1e-7, -1e-7, 123456789, -123456789} {
		out = append(out, f64bits(f))
	}
	return out
}()

// sampleModel searches the finite domain of preferred inputs for an assignment that makes every
// assertion true under native evaluation (real library functions). It is a counterexample /
// witness finder only: nothing is ever concluded from its failure.
func sampleModel(base []*Term, shadow []*Term, wdefs map[*Term]*Term, nts []*Term, extra []*Term, tries int, deadline time.Time) ([]string, []string, bool) {
	vars, ufs, seen := map[*Term]bool{}, map[*Term]bool{}, map[*Term]bool{}
	for _, a := range base {
		a.collect(vars, ufs, seen)
	}
	for _, a := range extra {
		a.collect(vars, ufs, seen)
	}
	named := map[*Term]bool{}
	for _, t := range nts {
		named[t] = true
	}
	// conjuncts over witnesses introduced by the encoding cannot be evaluated: they are left out here
	// (a sampled model is only ever a candidate; it is replayed against the compiled code)
	{
		var kept []*Term
		for _, a := range base {
			ok := true
			for _, id := range termFV(a) {
				if id > 0 {
					found := false
					for t := range named {
						if t.id == id {
							found = true
							break
						}
					}
					for t := range wdefs {
						if t.id == id {
							found = true
							break
						}
					}
					if !found {
						ok = false
						break
					}
				}
			}
			if ok {
				kept = append(kept, a)
			}
		}
		base = append(kept, shadow...)
	}
	h := uint64(1469598103934665603) ^ (sampleSeed * 0x9e3779b97f4a7c15)
	for _, t := range nts {
		h = (h ^ uint64(t.id)) * 1099511628211
	}
	next := func(n int) int {
		h = h*6364136223846793005 + 1442695040888963407
		return int((h >> 33) % uint64(n))
	}
	if os.Getenv("GOSMT_DEBUG_SAMPLE") != "" {
		env := newEvalEnv()
		for _, t := range nts {
			switch t.Sort {
			case SStr:
				env.vars[t] = "s:/d"
			case SBool:
				env.vars[t] = "false"
			default:
				env.vars[t] = "0"
			}
		}
		all, ok, ff := env.evalAll(base)
		fmt.Fprintf(os.Stderr, "sample debug: %d conjuncts, named=%d all=%v ok=%v firstFalse=%v\n", len(base), len(nts), all, ok, ff)
	}
	t0 := time.Now()
	// a small input space is enumerated completely (deterministic, no unlucky runs); a larger one is
	// sampled pseudo-randomly
	domain := func(t *Term) []string {
		switch t.Sort {
		case SStr:
			return sampleStringsAll
		case SBool:
			return []string{"false", "true"}
		}
		return sampleInts
	}
	prod := 1
	for _, t := range nts {
		prod *= len(domain(t))
		if prod > 40000 {
			prod = 0
			break
		}
	}
	if prod > 0 && len(nts) > 0 {
		start := int(((sampleSeed - 1) * 7919) % uint64(prod))
		for i := 0; i < prod; i++ {
			idx := (i + start) % prod
			if i%64 == 63 && (time.Now().After(deadline) || time.Since(t0) > 8*time.Second) {
				break
			}
			env := newEvalEnv()
			env.defs = wdefs
			vals := make([]string, len(nts))
			r := idx
			for i, t := range nts {
				d := domain(t)
				vals[i] = d[r%len(d)]
				if t.Sort == SStr {
					vals[i] = "s:" + vals[i]
				}
				r /= len(d)
				env.vars[t] = vals[i]
			}
			all, ok, _ := env.evalAll(base)
			if ok && all {
				if ex, ok2 := env.evalStrings(extra); ok2 {
					if os.Getenv("GOSMT_DEBUG_SAMPLE") != "" {
						fmt.Fprintf(os.Stderr, "sample debug: enumeration hit at %d/%d after %v\n", idx, prod, time.Since(t0))
					}
					return vals, ex, true
				}
			}
		}
		if os.Getenv("GOSMT_DEBUG_SAMPLE") != "" {
			fmt.Fprintf(os.Stderr, "sample debug: enumeration of %d found nothing after %v\n", prod, time.Since(t0))
		}
		return nil, nil, false
	}
	for try := 0; try < tries; try++ {
		if try%32 == 31 && (time.Now().After(deadline) || time.Since(t0) > 5*time.Second) {
			break
		}
		env := newEvalEnv()
		env.defs = wdefs
		vals := make([]string, len(nts))
		for i, t := range nts {
			switch t.Sort {
			case SStr:
				if try < tries/4 {
					// first quarter: identifier-like texts only (they scan and parse as Go)
					vals[i] = "s:" + identStrings[next(len(identStrings))]
				} else {
					vals[i] = "s:" + sampleStrings[next(len(sampleStrings))]
				}
			case SBool:
				vals[i] = fmtBool(next(2) == 1)
			default:
				vals[i] = sampleInts[next(len(sampleInts))]
			}
			env.vars[t] = vals[i]
		}
		all, ok, _ := env.evalAll(base)
		if ok && all {
			ex, ok2 := env.evalStrings(extra)
			if ok2 {
				if os.Getenv("GOSMT_DEBUG_SAMPLE") != "" {
					fmt.Fprintf(os.Stderr, "sample debug: hit at try %d after %v\n", try, time.Since(t0))
				}
				return vals, ex, true
			}
		}
	}
	if os.Getenv("GOSMT_DEBUG_SAMPLE") != "" {
		fmt.Fprintf(os.Stderr, "sample debug: no hit after %v\n", time.Since(t0))
	}
	return nil, nil, false
}

func (p *Path) refineAndRecord(ob *Oblig, neg *Term) {
	names, nts := p.namedModelTerms()
	asserts := append(append([]*Term{}, p.pc...), neg)
	budget := 40 * time.Second
	if p.tier > 0 {
		budget = 150 * time.Second
	}
	deadline := time.Now().Add(budget)
	// up to 3 different counterexamples (each later one must differ from the earlier ones in some
	// input): the symbolic obligation may be stricter than the native oracle, so that the first model
	// need not be one that reproduces
	cur := ob
	for k := 0; k < 3; k++ {
		r := solveModelS(p.ss, asserts, p.shadow, p.wdefs, names, nts, nil, p.ex.obligTO/2, p.ex.useCVC, deadline, 10)
		if k > 0 && r.Status != "sat" {
			return
		}
		cur.Solvers = r.Solvers
		switch r.Status {
		case "unsat":
			cur.Status = "discharged"
			cur.Reason = fmt.Sprintf("after %d refinement round(s) against the real library", r.Rounds)
			return
		case "sat":
			cur.Status = "violated-candidate"
			cur.Model = r.Model
			cur.Choices = map[string]int{}
			for kk, c := range p.choices {
				cur.Choices[kk] = c
			}
			cur.Reason = "model by " + r.By
		default:
			cur.Status = "inconclusive"
			cur.Reason = r.Reason
			return
		}
		// block this assignment of the named inputs
		var diffs []*Term
		for i, n := range names {
			if strings.HasPrefix(n, "env:") {
				continue
			}
			diffs = append(diffs, mkNot(mkEq(nts[i], valueTerm(r.Model[n], nts[i].Sort))))
		}
		if len(diffs) == 0 {
			return
		}
		asserts = append(asserts, mkOr(diffs...))
		next := &Oblig{Harness: ob.Harness, Label: ob.Label, PathID: ob.PathID, Ambient: ob.Ambient, Known: ob.Known, Finding: ob.Finding, Cond: ob.Cond, Extra: true}
		p.obligs = append(p.obligs, next)
		cur = next
	}
}

func truncate(s string, n int) string {
	if len(s) <= n {
		return s
	}
	return s[:n] + "…"
}
