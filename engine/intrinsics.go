package main

// Harness intrinsics: nondet*, verif*, spec* functions declared in the harness
// support file (package jen overlay). Natively they read a replay vector; here
// they are intercepted.

import (
	"fmt"
	"go/types"
	"math/big"
	"reflect"
	"strconv"
	"strings"

	"golang.org/x/tools/go/ssa"
)

func (p *Path) registerNondet(name string, t *Term) {
	if _, ok := p.nondets[name]; !ok {
		p.nondets[name] = t
		p.ndOrder = append(p.ndOrder, name)
	}
}

func constStr(p *Path, v Value, what string) string {
	t, ok := v.(*Term)
	if !ok || !t.IsConst() || t.Sort != SStr {
		p.unsupported("%s must be a constant string, got %v", what, v)
	}
	return t.S
}

func (p *Path) nondetVar(name string, s Sort) *Term {
	if t, ok := p.nondets[name]; ok {
		if t.Sort != s {
			p.unsupported("nondet %q used with two sorts", name)
		}
		return t
	}
	t := mkVar("nd_"+name, s)
	p.registerNondet(name, t)
	return t
}

var specNative = map[string]func(args []string) (string, bool){}

func (p *Path) intrinsic(fn *ssa.Function, args []Value) (Value, bool) {
	if fn.Pkg == nil || !p.ex.pkgs[fn.Pkg] {
		return nil, false
	}
	n := fn.Name()
	if !(strings.HasPrefix(n, "nondet") || strings.HasPrefix(n, "verif") || strings.HasPrefix(n, "spec")) {
		return nil, false
	}
	switch n {
	case "nondetString":
		return p.nondetVar(constStr(p, args[0], "nondet name"), SStr), true
	case "nondetBool":
		return p.nondetVar(constStr(p, args[0], "nondet name"), SBool), true
	case "nondetInt":
		name := constStr(p, args[0], "nondet name")
		_, existed := p.nondets[name]
		v := p.nondetVar(name, SInt)
		if !existed {
			p.assume(mkLe(args[1].(*Term), v))
			p.assume(mkLe(v, args[2].(*Term)))
		}
		return v, true
	case "nondetUint64":
		name := constStr(p, args[0], "nondet name")
		_, existed := p.nondets[name]
		v := p.nondetVar(name, SInt)
		if !existed {
			p.assume(mkLe(mkInt(0), v))
			p.assume(mkLe(v, mkBig(new(big.Int).SetUint64(^uint64(0)))))
		}
		return v, true
	case "nondetChoice":
		name := constStr(p, args[0], "nondet name")
		if c, ok := p.choices[name]; ok {
			return mkInt(int64(c)), true
		}
		k := int(p.concreteInt(args[1], "nondetChoice n"))
		if k <= 0 {
			panic(pathAbort{kind: "assume", msg: "nondetChoice with n<=0"})
		}
		c := p.decide(k, "choice:"+name, nil)
		p.choices[name] = c
		return mkInt(int64(c)), true
	case "nondetFloat64", "nondetFloat32":
		name := constStr(p, args[0], "nondet name")
		_, existed := p.nondets[name]
		v := p.nondetVar(name, SInt)
		kind, max := types.Float64, new(big.Int).SetUint64(^uint64(0))
		if n == "nondetFloat32" {
			kind, max = types.Float32, big.NewInt(int64(^uint32(0)))
		}
		if !existed {
			p.assume(mkLe(mkInt(0), v))
			p.assume(mkLe(v, mkBig(max)))
		}
		return FloatVal{kind: kind, bits: v}, true
	case "nondetComplex128", "nondetComplex64":
		name := constStr(p, args[0], "nondet name")
		_, existed := p.nondets[name+".re"]
		re := p.nondetVar(name+".re", SInt)
		im := p.nondetVar(name+".im", SInt)
		kind, max := types.Complex128, new(big.Int).SetUint64(^uint64(0))
		if n == "nondetComplex64" {
			kind, max = types.Complex64, big.NewInt(int64(^uint32(0)))
		}
		if !existed {
			for _, v := range []*Term{re, im} {
				p.assume(mkLe(mkInt(0), v))
				p.assume(mkLe(v, mkBig(max)))
			}
		}
		return FloatVal{kind: kind, bits: re, bits2: im}, true
	case "verifAssume":
		c := args[0].(*Term)
		if c.IsFalse() {
			panic(pathAbort{kind: "assume", msg: "assumption is false"})
		}
		if c.IsTrue() || p.pcSet[c.id] {
			return nil, true
		}
		// an assumption is a one-sided branch
		if p.cursor >= len(p.prefix) {
			if !p.feasibleWith(c) {
				panic(pathAbort{kind: "assume", msg: "assumption infeasible"})
			}
		}
		p.assume(c)
		return nil, true
	case "verifAssert":
		p.assertOblig(args[0].(*Term), constStr(p, args[1], "assert label"))
		return nil, true
	case "verifAssertKnown":
		p.assertObligKnown(args[0].(*Term), constStr(p, args[1], "assert label"), args[2].(*Term), constStr(p, args[3], "finding id"))
		return nil, true
	case "verifDeterministic":
		// relational obligation: every schedule (map order, capacity) must give the same value
		p.detObs = append(p.detObs, Obs{Label: constStr(p, args[0], "label"), Val: strArg(args[1])})
		p.obs = append(p.obs, Obs{Label: "det:" + constStr(p, args[0], "label"), Val: strArg(args[1])})
		return nil, true
	case "verifGoListOutput":
		p.cmdOutput = args[0].(*Term)
		return nil, true
	case "verifObserve":
		p.obs = append(p.obs, Obs{Label: constStr(p, args[0], "observe label"), Val: strArg(args[1])})
		return nil, true
	case "verifTier":
		return mkInt(int64(p.tier)), true
	case "verifSummarise":
		p.summaries[constStr(p, args[0], "function name")] = true
		return nil, true
	case "verifOrderInsensitive":
		p.orderInsens[constStr(p, args[0], "function name")] = true
		return nil, true
	case "verifMapOrderAll":
		p.mapOrderAll = args[0].(*Term).B
		return nil, true
	case "verifCapFork":
		p.capFork = args[0].(*Term).B
		return nil, true
	case "verifUnwind":
		p.unwind = int(p.concreteInt(args[0], "unwind"))
		return nil, true
	case "verifUnwindAssume":
		p.unwind = int(p.concreteInt(args[0], "unwind"))
		p.unwindAssume = true
		return nil, true
	case "verifMatch":
		re, err := parseRe(constStr(p, args[1], "pattern"))
		if err != nil {
			p.unsupported("bad pattern: %v", err)
		}
		return mkInRe(args[0].(*Term), re), true
	case "verifPanics":
		return p.runCatching(args[0]), true
	case "verifPanicMsg":
		return p.lastPanic, true
	case "verifFinite64":
		f := args[0].(FloatVal)
		if f.isC {
			return tTrue, true
		}
		return mkUF("f64finite", SBool, f.bits), true
	case "verifFinite32":
		f := args[0].(FloatVal)
		if f.isC {
			return tTrue, true
		}
		return mkUF("f32finite", SBool, f.bits), true
	case "verifFormatCalls":
		return mkInt(int64(p.fmtCalls)), true
	case "verifEffectCount":
		return mkInt(int64(len(p.effects))), true
	case "verifEffectName":
		i := p.concreteInt(args[0], "effect index")
		if i < 0 || int(i) >= len(p.effects) {
			return mkStr(""), true
		}
		return mkStr(p.effects[i]), true
	case "verifEffectArg":
		i := p.concreteInt(args[0], "effect index")
		j := p.concreteInt(args[1], "arg index")
		if i < 0 || int(i) >= len(p.effectArgs) || j < 0 || int(j) >= len(p.effectArgs[i]) {
			return mkStr(""), true
		}
		a := p.effectArgs[i][j]
		if a.Sort == SInt {
			return itoa(a), true
		}
		return a, true
	case "verifTempFile":
		return p.nondetVar(constStr(p, args[0], "nondet name"), SStr), true
	case "verifTempFileWith":
		// the target of a Save: a file with the given content (or absent)
		nm := p.nondetVar(constStr(p, args[0], "nondet name"), SStr)
		e := p.fsLookup(nm)
		e.content, e.exists = args[1].(*Term), args[2].(*Term)
		return nm, true
	case "verifReadTempFile":
		e := p.fsLookup(args[0].(*Term))
		return Tuple{e.content, e.exists}, true
	case "verifFSFailed":
		return mkBool(p.fsFailed), true
	case "verifFSCreatedMode":
		e := p.fsLookup(args[0].(*Term))
		if e.perm == nil {
			return mkInt(-1), true
		}
		return e.perm, true
	case "verifEffectFailed":
		i := p.concreteInt(args[0], "effect index")
		if i < 0 || int(i) >= len(p.effectFail) {
			return tFalse, true
		}
		return p.effectFail[i], true
	case "verifNotKeyOf":
		// assume that s is not a key of the (constant) map m
		s := args[0].(*Term)
		m := args[1].(MapRef)
		if m.m == nil {
			return nil, true
		}
		if !s.IsConst() && p.isBigConstMap(m.m) {
			c := mkEq(mkUF(registerBigMap(m.m), SStr, s), mkStr(""))
			p.assume(c)
			return nil, true
		}
		var keys []string
		for _, e := range m.m.entries {
			k, ok := e.k.(*Term)
			if !ok || !k.IsConst() {
				p.unsupported("verifNotKeyOf on a map with symbolic keys")
			}
			keys = append(keys, k.S)
		}
		c := mkNot(memberOf(s, keys))
		if c.IsFalse() {
			panic(pathAbort{kind: "assume", msg: "assumption is false"})
		}
		p.assume(c)
		return nil, true
	case "verifHasPrefix":
		return mkPrefixOf(args[1].(*Term), args[0].(*Term)), true
	case "verifContainsNewline":
		return mkContains(args[0].(*Term), mkStr("\n")), true
	case "verifContains":
		return mkContains(args[0].(*Term), args[1].(*Term)), true
	case "verifMemberOf":
		words, ok := stringSliceConsts(args[1])
		if !ok {
			p.unsupported("verifMemberOf needs a slice of constant strings")
		}
		return memberOf(args[0].(*Term), words), true
	case "specIsStdPath":
		return stdPathSetTerm(args[0].(*Term)), true
	case "specStdName":
		return stdNameTerm(args[0].(*Term)), true
	case "verifExactTables":
		p.exactTables = args[0].(*Term).B
		return nil, true
	case "specIsGoReserved":
		return memberOf(args[0].(*Term), goReservedIdents()), true
	case "verifNote":
		// informational: recorded when the condition can hold, never a violation
		c := args[0].(*Term)
		if !c.IsFalse() && (c.IsTrue() || p.feasibleWith(c)) {
			msg := constStr(p, args[1], "note")
			if len(p.gwrites) > 0 {
				msg += ": " + p.gwrites[0]
			}
			p.notes = append(p.notes, msg)
		}
		return nil, true
	case "verifGlobalWrites":
		return mkInt(int64(len(p.gwrites))), true
	case "verifTrackGlobals":
		p.trackGlobals = args[0].(*Term).B
		return nil, true
	case "verifIte":
		return mkIte(args[0].(*Term), args[1].(*Term), args[2].(*Term)), true
	case "verifAnd":
		return mkAnd(args[0].(*Term), args[1].(*Term)), true
	case "verifOr":
		return mkOr(args[0].(*Term), args[1].(*Term)), true
	case "verifImplies":
		return mkImplies(args[0].(*Term), args[1].(*Term)), true
	case "verifItoa":
		return itoa(args[0].(*Term)), true
	case "verifSameObject":
		return p.sameObject(args[0], args[1]), true
	case "verifSliceAlias":
		a, ok1 := args[0].(Slice)
		b, ok2 := args[1].(Slice)
		if !ok1 || !ok2 {
			return tFalse, true
		}
		if cap(a.data) == 0 || cap(b.data) == 0 {
			return tFalse, true
		}
		fa, fb := a.data[:cap(a.data)], b.data[:cap(b.data)]
		return mkBool(&fa[len(fa)-1] == &fb[len(fb)-1]), true
	}
	if strings.HasPrefix(n, "spec") {
		if r, ok := p.specIntrinsic(n, args); ok {
			return r, true
		}
	}
	p.unsupported("unknown intrinsic %s", n)
	return nil, true
}

func (p *Path) sameObject(a, b Value) *Term {
	ia, ok1 := a.(Iface)
	ib, ok2 := b.(Iface)
	if ok1 && ok2 {
		if ia.t == nil || ib.t == nil {
			return mkBool(ia.t == nil && ib.t == nil)
		}
		pa, ok1 := ia.v.(Ptr)
		pb, ok2 := ib.v.(Ptr)
		if ok1 && ok2 {
			return mkBool(pa.p == pb.p)
		}
		return mkBool(reflect.DeepEqual(ia.v, ib.v))
	}
	return tFalse
}

// runCatching calls f and reports whether it panicked (Go-level panic in the program).
func (p *Path) runCatching(f Value) (res *Term) {
	depth, stack := p.depth, len(p.stack)
	defer func() {
		if r := recover(); r != nil {
			if pp, ok := r.(progPanic); ok {
				p.depth = depth
				p.stack = p.stack[:stack]
				p.lastPanic = mkStr(pp.msg)
				res = tTrue
				return
			}
			panic(r)
		}
	}()
	p.callValue(f, nil)
	return tFalse
}

// ---- spec oracles: UF symbolically, real library natively

func (p *Path) specIntrinsic(n string, args []Value) (Value, bool) {
	switch n {
	case "specUnquotesTo":
		// strconv.Unquote(lit) == s (and succeeds)
		lit, s := args[0].(*Term), args[1].(*Term)
		if lit.IsConst() && s.IsConst() {
			u, err := strconv.Unquote(lit.S)
			return mkBool(err == nil && u == s.S), true
		}
		return mkAnd(mkUF("unquote_ok", SBool, lit), mkEq(mkUF("unquote", SStr, lit), s)), true
	case "specIntLitValue":
		// value of a Go integer literal text, -1 if not a literal
		lit := args[0].(*Term)
		if lit.IsConst() {
			return mkBig(intLitValue(lit.S)), true
		}
		return mkUF("intlitval", SInt, lit), true
	case "specStringLitIs":
		// structural forms: `val` when it can be back-quoted, strconv.Quote(val) otherwise (or always)
		lit, val := args[0].(*Term), args[1].(*Term)
		raw := mkAnd(mkEq(lit, mkConcat(mkStr("`"), val, mkStr("`"))), canbq(val))
		return mkOr(raw, mkEq(lit, goquote(val))), true
	case "specTagLookup":
		// the conventional-format parser is trusted (DESIGN C17): symbolically the obligation is
		// that the literal denotes the conventional tag text; natively reflect.StructTag decides
		lit, val := args[0].(*Term), args[1].(*Term)
		raw := mkAnd(mkEq(lit, mkConcat(mkStr("`"), val, mkStr("`"))), canbq(val))
		return mkOr(raw, mkEq(lit, goquote(val))), true
	case "specSameCode":
		return mkEq(args[0].(*Term), args[1].(*Term)), true
	case "specQuote":
		return goquote(args[0].(*Term)), true
	case "specGofmt":
		return gofmtOf(args[0].(*Term)), true
	case "specGofmtOK":
		return gofmtOK(args[0].(*Term)), true
	case "specIsOneComment":
		return mkInRe(args[0].(*Term), reOneCommentTok), true
	case "specOneToken":
		lit := args[0].(*Term)
		switch constStr(p, args[1], "token kind") {
		case "STRING":
			return mkInRe(lit, reStringTok), true
		case "CHAR":
			return mkInRe(lit, reQuotedRune), true
		}
		p.unsupported("specOneToken kind")
	case "specIntConstIs", "specUintConstIs":
		expr, typ, v := args[0].(*Term), constStr(p, args[1], "type name"), args[2].(*Term)
		wrap := func(inner *Term) *Term {
			if typ == "int" {
				return inner
			}
			return mkConcat(mkStr(typ+"("), inner, mkStr(")"))
		}
		alts := []*Term{mkEq(expr, wrap(itoa(v)))}
		alts = append(alts, mkAnd(mkLe(mkInt(0), v), mkEq(expr, wrap(gohex(v)))))
		if typ == "uint8" {
			w2 := func(inner *Term) *Term { return mkConcat(mkStr("byte("), inner, mkStr(")")) }
			alts = append(alts, mkEq(expr, w2(itoa(v))), mkEq(expr, w2(gohex(v))))
		}
		return mkOr(alts...), true
	case "specBoolConstIs":
		return mkEq(args[0].(*Term), mkIte(args[1].(*Term), mkStr("true"), mkStr("false"))), true
	case "specFloat64ConstIs":
		expr, f := args[0].(*Term), args[1].(FloatVal)
		t := fmtFloatSharpV(f)
		return mkOr(
			mkAnd(mkEq(expr, t), mkInRe(t, reHasDotOrExp)),
			mkAnd(mkEq(expr, mkConcat(t, mkStr(".0"))), mkInRe(t, reSignedDigits)),
		), true
	case "specFloat32ConstIs":
		expr, f := args[0].(*Term), args[1].(FloatVal)
		return mkEq(expr, mkConcat(mkStr("float32("), fmtFloatSharpV(f), mkStr(")"))), true
	case "specComplex128ConstIs":
		expr, f := args[0].(*Term), args[1].(FloatVal)
		std := mkEq(expr, fmtFloatSharpV(f))
		if f.isC {
			return std, true
		}
		// also accepted: a pure imaginary literal "(<imag>i)" when the real part is +0
		pureImag := mkAnd(mkEq(f.bits, mkInt(0)), mkEq(expr, mkConcat(mkStr("("), mkUF("fmtf64", SStr, f.bits2), mkStr("i)"))))
		return mkOr(std, pureImag), true
	case "specComplex64ConstIs":
		expr, f := args[0].(*Term), args[1].(FloatVal)
		return mkEq(expr, mkConcat(mkStr("complex64"), fmtFloatSharpV(f))), true
	case "specRuneLitValue":
		lit := args[0].(*Term)
		if lit.IsConst() {
			return mkInt(runeLitValue(lit.S)), true
		}
		return mkUF("runelitval", SInt, lit), true
	}
	return nil, false
}

func intLitValue(s string) *big.Int {
	s2 := strings.ReplaceAll(s, "_", "")
	if s2 == "" || s2 != s {
		return big.NewInt(-1)
	}
	v, ok := new(big.Int).SetString(s2, 0)
	if !ok || v.Sign() < 0 || strings.HasPrefix(s2, "+") || strings.HasPrefix(s2, "-") {
		return big.NewInt(-1)
	}
	return v
}

func runeLitValue(s string) int64 {
	if len(s) < 3 || s[0] != '\'' || s[len(s)-1] != '\'' {
		return -1
	}
	r, _, tail, err := strconv.UnquoteChar(s[1:len(s)-1], '\'')
	if err != nil || tail != "" {
		return -1
	}
	return int64(r)
}

func init() {
	specNative["unquote_ok"] = func(a []string) (string, bool) {
		s, ok := modelStr(a[0])
		_, err := strconv.Unquote(s)
		return strconv.FormatBool(err == nil), ok
	}
	specNative["unquote"] = func(a []string) (string, bool) {
		s, ok := modelStr(a[0])
		u, err := strconv.Unquote(s)
		if err != nil {
			return "", false
		}
		return "s:" + u, ok
	}
	specNative["taglookup"] = func(a []string) (string, bool) {
		lit, ok1 := modelStr(a[0])
		key, ok2 := modelStr(a[1])
		val, ok3 := modelStr(a[2])
		u, err := strconv.Unquote(lit)
		if err != nil {
			return "false", ok1 && ok2 && ok3
		}
		got, ok := reflect.StructTag(u).Lookup(key)
		return strconv.FormatBool(ok && got == val), ok1 && ok2 && ok3
	}
	specNative["intlitval"] = func(a []string) (string, bool) {
		s, ok := modelStr(a[0])
		return intLitValue(s).String(), ok
	}
	specNative["runelitval"] = func(a []string) (string, bool) {
		s, ok := modelStr(a[0])
		return fmt.Sprint(runeLitValue(s)), ok
	}
}
