package main

// Map model: insertion-ordered entry lists; symbolic string keys fork on
// equality with existing keys; range order is a decision over remaining entries.

import (
	"sort"

	"golang.org/x/tools/go/ssa"
)

const bigConstMapThreshold = 16

func (p *Path) isBigConstMap(m *Map) bool {
	if len(m.entries) < bigConstMapThreshold {
		return false
	}
	for _, e := range m.entries {
		k, ok := e.k.(*Term)
		if !ok || !k.IsConst() {
			return false
		}
		v, ok := e.v.(*Term)
		if !ok || !v.IsConst() {
			return false
		}
	}
	return true
}

// mapFind returns the entry whose key equals k (deciding symbolically if needed), or nil.
func (p *Path) mapFind(m *Map, k Value) *MapEntry {
	p.noteRead(m)
	if kt, ok := k.(*Term); ok && !kt.IsConst() && p.isBigConstMap(m) {
		return p.bigMapFind(m, kt)
	}
	var cands []*MapEntry
	var eqs []*Term
	for _, e := range m.entries {
		eq := p.eqValue(e.k, k)
		if eq.IsTrue() || p.pcSet[eq.id] {
			return e
		}
		if eq.IsFalse() || p.pcSet[mkNot(eq).id] {
			continue
		}
		cands = append(cands, e)
		eqs = append(eqs, eq)
	}
	if len(cands) == 0 {
		return nil
	}
	var negs []*Term
	for _, eq := range eqs {
		negs = append(negs, mkNot(eq))
	}
	absent := mkAnd(negs...)
	ch := p.decide(len(cands)+1, "map-key", func(i int) bool {
		if i < len(cands) {
			return p.feasibleWith(eqs[i])
		}
		return p.feasibleWith(absent)
	})
	if ch < len(cands) {
		p.assume(eqs[ch])
		for j, eq := range eqs {
			if j != ch {
				p.assume(mkNot(eq))
			}
		}
		return cands[ch]
	}
	p.assume(absent)
	return nil
}

// bigMapFind handles a symbolic key against a large constant table (stdlib hints):
// either the key is outside the key set, or the value is an ite chain over the table.
func (p *Path) bigMapFind(m *Map, k *Term) *MapEntry {
	var lits []*Re
	keys := make([]string, 0, len(m.entries))
	for _, e := range m.entries {
		keys = append(keys, e.k.(*Term).S)
	}
	sort.Strings(keys)
	for _, s := range keys {
		lits = append(lits, reLit(s))
	}
	in := mkInRe(k, reUnion(lits...))
	if !p.branch(in, "bigmap-member") {
		return nil
	}
	// value as an ite chain (built once per key term thanks to hash-consing)
	var val *Term = mkStr("")
	for i := len(m.entries) - 1; i >= 0; i-- {
		e := m.entries[i]
		val = mkIte(mkEq(k, e.k.(*Term)), e.v.(*Term), val)
	}
	return &MapEntry{k: k, v: val}
}

func (p *Path) mapLookup(m *Map, k Value) (Value, bool) {
	e := p.mapFind(m, k)
	if e == nil {
		return nil, false
	}
	return copyVal(e.v), true
}

func (p *Path) mapUpdate(m *Map, k, v Value) {
	e := p.mapFind(m, k)
	p.noteWrite(m)
	if e != nil {
		e.v = v
		return
	}
	m.entries = append(m.entries, &MapEntry{k: k, v: v})
}

func (p *Path) canonicalOrderHere() bool {
	if !p.mapOrderAll || p.inInit {
		return true
	}
	for _, fn := range p.stack {
		if p.orderInsens[fn.Name()] {
			return true
		}
	}
	return false
}

func (p *Path) mapNext(it *MapIter, in *ssa.Next) Value {
	zk, zv := Value(nil), Value(nil)
	var remaining []*MapEntry
	if it.m != nil {
		// entries deleted during iteration are skipped; entries added may or may not be seen (not modelled: skipped)
		live := map[*MapEntry]bool{}
		for _, e := range it.m.entries {
			live[e] = true
		}
		for _, e := range it.order {
			if !it.done[e] && live[e] {
				remaining = append(remaining, e)
			}
		}
	}
	if len(remaining) == 0 {
		if it.m != nil {
			zk, zv = zero(it.m.kt), zero(it.m.vt)
		} else {
			zk, zv = mkInt(0), mkInt(0)
		}
		return Tuple{tFalse, zk, zv}
	}
	ch := 0
	if len(remaining) > 1 && !p.canonicalOrderHere() {
		p.ambient = true
		ch = p.decide(len(remaining), "map-order", nil)
	}
	e := remaining[ch]
	it.done[e] = true
	return Tuple{tTrue, copyVal(e.k), copyVal(e.v)}
}
