package main

// Map model: insertion-ordered entry lists; symbolic string keys fork on
// equality with existing keys; range order is a decision over remaining entries.

import (
	"fmt"
	"sort"
	"sync"

	"golang.org/x/tools/go/ssa"
)

const bigConstMapThreshold = 16

func (p *Path) isBigConstMap(m *Map) bool {
	if len(m.entries) < bigConstMapThreshold {
		return false
	}
	for _, e := range m.entries {
		k, ok := e.k.(*Term)
		if !ok || !k.IsConst() {
			return false
		}
		v, ok := e.v.(*Term)
		if !ok || !v.IsConst() {
			return false
		}
	}
	return true
}

// mapFind returns the entry whose key equals k (deciding symbolically if needed), or nil.
func (p *Path) mapFind(m *Map, k Value) *MapEntry {
	p.noteRead(m)
	if kt, ok := k.(*Term); ok && !kt.IsConst() && p.isBigConstMap(m) {
		return p.bigMapFind(m, kt)
	}
	var cands []*MapEntry
	var eqs []*Term
	for _, e := range m.entries {
		eq := p.eqValue(e.k, k)
		if eq.IsTrue() || p.pcSet[eq.id] {
			return e
		}
		if eq.IsFalse() || p.pcSet[mkNot(eq).id] {
			continue
		}
		cands = append(cands, e)
		eqs = append(eqs, eq)
	}
	if len(cands) == 0 {
		return nil
	}
	var negs []*Term
	for _, eq := range eqs {
		negs = append(negs, mkNot(eq))
	}
	absent := mkAnd(negs...)
	ch := p.decide(len(cands)+1, "map-key", func(i int) bool {
		if i < len(cands) {
			return p.feasibleWith(eqs[i])
		}
		return p.feasibleWith(absent)
	})
	if ch < len(cands) {
		p.assume(eqs[ch])
		for j, eq := range eqs {
			if j != ch {
				p.assume(mkNot(eq))
			}
		}
		return cands[ch]
	}
	p.assume(absent)
	return nil
}

// bigMapFind handles a symbolic key against a large constant table (stdlib hints).
// The lookup result is the application bigmapN(k) of an uninterpreted function whose
// contract is "the result is one of the table's values or the zero value" and whose
// real values (the table) are used for counterexample refinement. This
// over-approximates the table (sound for unsat verdicts); exact reasoning over the
// table (C18) constrains k to the key set and uses ground facts.
func (p *Path) bigMapFind(m *Map, k *Term) *MapEntry {
	if p.exactTables {
		// exact: membership in the key set, value as an ite chain over the table
		keys := make([]string, 0, len(m.entries))
		for _, e := range m.entries {
			keys = append(keys, e.k.(*Term).S)
		}
		if !p.branch(memberOf(k, keys), "table-member") {
			return nil
		}
		var val *Term = mkStr("")
		for i := len(m.entries) - 1; i >= 0; i-- {
			e := m.entries[i]
			val = mkIte(mkEq(k, e.k.(*Term)), e.v.(*Term), val)
		}
		return &MapEntry{k: k, v: val}
	}
	name := registerBigMap(m)
	val := mkUF(name, SStr, k)
	if !p.branch(mkNot(mkEq(val, mkStr(""))), "bigmap-member") {
		return nil
	}
	return &MapEntry{k: k, v: val}
}

type bigMapInfo struct {
	table  map[string]string
	values *Re
	keys   []string
}

var (
	bigMapMu  sync.Mutex
	bigMapTab = map[string]*bigMapInfo{}
)

func registerBigMap(m *Map) string {
	name := fmt.Sprintf("bigmap%d", m.serial)
	bigMapMu.Lock()
	defer bigMapMu.Unlock()
	if _, ok := bigMapTab[name]; ok {
		return name
	}
	info := &bigMapInfo{table: map[string]string{}}
	vals := map[string]bool{"": true}
	for _, e := range m.entries {
		info.table[e.k.(*Term).S] = e.v.(*Term).S
		info.keys = append(info.keys, e.k.(*Term).S)
		vals[e.v.(*Term).S] = true
	}
	sort.Strings(info.keys)
	var vs []string
	for v := range vals {
		vs = append(vs, v)
	}
	sort.Strings(vs)
	var lits []*Re
	for _, v := range vs {
		lits = append(lits, reLit(v))
	}
	info.values = reUnion(lits...)
	bigMapTab[name] = info
	return name
}

func bigMapInfoFor(name string) *bigMapInfo {
	bigMapMu.Lock()
	defer bigMapMu.Unlock()
	return bigMapTab[name]
}

func (p *Path) mapLookup(m *Map, k Value) (Value, bool) {
	e := p.mapFind(m, k)
	if e == nil {
		return nil, false
	}
	return copyVal(e.v), true
}

func (p *Path) mapUpdate(m *Map, k, v Value) {
	p.writes++
	e := p.mapFind(m, k)
	p.noteWrite(m)
	if e != nil {
		e.v = v
		return
	}
	m.entries = append(m.entries, &MapEntry{k: k, v: v})
}

func (p *Path) canonicalOrderHere() bool {
	if !p.mapOrderAll || p.inInit {
		return true
	}
	for _, fn := range p.stack {
		if p.orderInsens[fn.Name()] {
			return true
		}
	}
	return false
}

func (p *Path) mapNext(it *MapIter, in *ssa.Next) Value {
	zk, zv := Value(nil), Value(nil)
	var remaining []*MapEntry
	if it.m != nil {
		// entries deleted during iteration are skipped; entries added may or may not be seen (not modelled: skipped)
		live := map[*MapEntry]bool{}
		for _, e := range it.m.entries {
			live[e] = true
		}
		for _, e := range it.order {
			if !it.done[e] && live[e] {
				remaining = append(remaining, e)
			}
		}
	}
	if len(remaining) == 0 {
		if it.m != nil {
			zk, zv = zero(it.m.kt), zero(it.m.vt)
		} else {
			zk, zv = mkInt(0), mkInt(0)
		}
		return Tuple{tFalse, zk, zv}
	}
	ch := 0
	if len(remaining) > 1 && !p.canonicalOrderHere() {
		p.ambient = true
		ch = p.decide(len(remaining), "map-order", nil)
	}
	e := remaining[ch]
	it.done[e] = true
	return Tuple{tTrue, copyVal(e.k), copyVal(e.v)}
}
