package main

// Native term evaluator (DESIGN.md 3.8): evaluates a term under an assignment of
// its free variables, with every uninterpreted function replaced by the real
// library function. Used to validate solver models ("a sat answer counts only if
// its model validates") and to predict outputs for witness replays.

import (
	"fmt"
	"math/big"
	"strings"
)

type evalEnv struct {
	vars map[*Term]string // var -> model value text ("s:...", decimal, true/false)
	memo map[*Term]string
	apps map[*Term][]string // UF application -> evaluated argument values (for fact learning)
	appv map[*Term]string
	defs map[*Term]*Term // witness variable -> defining term (evaluated on demand)
}

func newEvalEnv() *evalEnv {
	return &evalEnv{vars: map[*Term]string{}, memo: map[*Term]string{}, apps: map[*Term][]string{}, appv: map[*Term]string{}}
}

type evalErr struct{ msg string }

func (e *evalEnv) str(t *Term) string {
	v := e.eval(t)
	if !strings.HasPrefix(v, "s:") {
		panic(evalErr{"not a string: " + t.String()})
	}
	return v[2:]
}

func (e *evalEnv) integer(t *Term) *big.Int {
	v := e.eval(t)
	i, ok := new(big.Int).SetString(v, 10)
	if !ok {
		panic(evalErr{"not an int: " + t.String() + " = " + v})
	}
	return i
}

func (e *evalEnv) boolean(t *Term) bool {
	v := e.eval(t)
	if v != "true" && v != "false" {
		panic(evalErr{"not a bool: " + t.String()})
	}
	return v == "true"
}

func fmtBool(b bool) string {
	if b {
		return "true"
	}
	return "false"
}

func (e *evalEnv) eval(t *Term) string {
	if r, ok := e.memo[t]; ok {
		return r
	}
	r := e.eval1(t)
	e.memo[t] = r
	return r
}

func (e *evalEnv) eval1(t *Term) string {
	switch t.Op {
	case "const":
		return termModelValue(t)
	case "var":
		v, ok := e.vars[t]
		if !ok {
			if d, has := e.defs[t]; has {
				return e.eval(d)
			}
			panic(evalErr{"no value for variable " + t.Name})
		}
		return v
	case "uf":
		var args []string
		for _, a := range t.Args {
			args = append(args, e.eval(a))
		}
		f := nativeUF(t.Name)
		if f == nil {
			panic(evalErr{"no native evaluator for " + t.Name})
		}
		v, ok := f(args)
		if !ok {
			panic(evalErr{"native evaluator failed for " + t.Name})
		}
		e.apps[t] = args
		e.appv[t] = v
		return v
	case "not":
		return fmtBool(!e.boolean(t.Args[0]))
	case "and":
		for _, a := range t.Args {
			if !e.boolean(a) {
				return "false"
			}
		}
		return "true"
	case "or":
		for _, a := range t.Args {
			if e.boolean(a) {
				return "true"
			}
		}
		return "false"
	case "ite":
		if e.boolean(t.Args[0]) {
			return e.eval(t.Args[1])
		}
		return e.eval(t.Args[2])
	case "=":
		return fmtBool(e.eval(t.Args[0]) == e.eval(t.Args[1]))
	case "str.++":
		var sb strings.Builder
		for _, a := range t.Args {
			sb.WriteString(e.str(a))
		}
		return "s:" + sb.String()
	case "str.len":
		return fmt.Sprint(len(e.str(t.Args[0])))
	case "str.substr":
		s := e.str(t.Args[0])
		off, n := e.integer(t.Args[1]), e.integer(t.Args[2])
		if !off.IsInt64() || !n.IsInt64() || off.Int64() < 0 || n.Int64() <= 0 || off.Int64() >= int64(len(s)) {
			return "s:"
		}
		o, l := off.Int64(), n.Int64()
		if o+l > int64(len(s)) {
			l = int64(len(s)) - o
		}
		return "s:" + s[o:o+l]
	case "str.in_re":
		return fmtBool(t.Re.MatchBytes(e.str(t.Args[0])))
	case "str.prefixof":
		return fmtBool(strings.HasPrefix(e.str(t.Args[1]), e.str(t.Args[0])))
	case "str.suffixof":
		return fmtBool(strings.HasSuffix(e.str(t.Args[1]), e.str(t.Args[0])))
	case "str.contains":
		return fmtBool(strings.Contains(e.str(t.Args[0]), e.str(t.Args[1])))
	case "str.<":
		return fmtBool(e.str(t.Args[0]) < e.str(t.Args[1]))
	case "str.<=":
		return fmtBool(e.str(t.Args[0]) <= e.str(t.Args[1]))
	case "str.from_int":
		i := e.integer(t.Args[0])
		if i.Sign() < 0 {
			return "s:"
		}
		return "s:" + i.String()
	case "str.to_int":
		s := e.str(t.Args[0])
		if s == "" {
			return "-1"
		}
		for i := 0; i < len(s); i++ {
			if s[i] < '0' || s[i] > '9' {
				return "-1"
			}
		}
		i, _ := new(big.Int).SetString(s, 10)
		return i.String()
	case "str.from_code":
		i := e.integer(t.Args[0])
		if !i.IsInt64() || i.Int64() < 0 || i.Int64() > 255 {
			return "s:"
		}
		return "s:" + string([]byte{byte(i.Int64())})
	case "str.to_code":
		s := e.str(t.Args[0])
		if len(s) != 1 {
			return "-1"
		}
		return fmt.Sprint(int(s[0]))
	case "+":
		sum := new(big.Int)
		for _, a := range t.Args {
			sum.Add(sum, e.integer(a))
		}
		return sum.String()
	case "neg":
		return new(big.Int).Neg(e.integer(t.Args[0])).String()
	case "*":
		return new(big.Int).Mul(e.integer(t.Args[0]), e.integer(t.Args[1])).String()
	case "div", "mod":
		a, b := e.integer(t.Args[0]), e.integer(t.Args[1])
		if b.Sign() == 0 {
			panic(evalErr{"division by zero"})
		}
		q, m := new(big.Int).DivMod(a, b, new(big.Int))
		if t.Op == "div" {
			return q.String()
		}
		return m.String()
	case "<":
		return fmtBool(e.integer(t.Args[0]).Cmp(e.integer(t.Args[1])) < 0)
	case "<=":
		return fmtBool(e.integer(t.Args[0]).Cmp(e.integer(t.Args[1])) <= 0)
	}
	panic(evalErr{"evaluator: unsupported operator " + t.Op})
}

// evalAll evaluates the assertions; returns (allTrue, ok). ok=false: could not evaluate.
func (e *evalEnv) evalAll(asserts []*Term) (all bool, ok bool, firstFalse *Term) {
	defer func() {
		if r := recover(); r != nil {
			if _, isE := r.(evalErr); isE {
				all, ok = false, false
				return
			}
			panic(r)
		}
	}()
	all = true
	for _, a := range asserts {
		if !e.boolean(a) {
			all = false
			if firstFalse == nil {
				firstFalse = a
			}
		}
	}
	return all, true, firstFalse
}

func (e *evalEnv) evalStrings(ts []*Term) (out []string, ok bool) {
	defer func() {
		if r := recover(); r != nil {
			if _, isE := r.(evalErr); isE {
				ok = false
				return
			}
			panic(r)
		}
	}()
	for _, t := range ts {
		out = append(out, e.eval(t))
	}
	return out, true
}
