package main

import (
	"crypto/sha256"
	"encoding/json"
	"flag"
	"fmt"
	"os"
	"path/filepath"
	"runtime"
	"sort"
	"strconv"
	"strings"
	"sync"
	"time"

	"golang.org/x/tools/go/packages"
	"golang.org/x/tools/go/ssa"
	"golang.org/x/tools/go/ssa/ssautil"
)

var (
	verifDir = envOr("VERIF_DIR", "/verif")
	repoDir  = envOr("VERIF_REPO", "/repo")
)

func envOr(k, d string) string {
	if v := os.Getenv(k); v != "" {
		return v
	}
	return d
}

var loadGennames bool

type Loaded struct {
	prog    *ssa.Program
	gen     *ssa.Package // package main of gennames (only when loadGennames)
	genOv   map[string]string
	jen     *ssa.Package
	pkgs    map[*ssa.Package]bool
	overlay map[string]string // virtual path -> real path
	loadS   float64
}

var extraHarness []string

func harnessFiles() []string {
	fs, _ := filepath.Glob(filepath.Join(verifDir, "harness", "*.go"))
	sort.Strings(fs)
	return append(fs, extraHarness...)
}

func load() (*Loaded, error) {
	t0 := time.Now()
	ov := map[string][]byte{}
	ovPaths := map[string]string{}
	for _, f := range harnessFiles() {
		b, err := os.ReadFile(f)
		if err != nil {
			return nil, err
		}
		virt := filepath.Join(repoDir, "jen", "zz_verif_"+filepath.Base(f))
		ov[virt] = b
		ovPaths[virt] = f
	}
	genOv := map[string]string{}
	patterns := []string{"./jen"}
	if loadGennames {
		gfs, _ := filepath.Glob(filepath.Join(verifDir, "harness_gennames", "*.go"))
		sort.Strings(gfs)
		for _, f := range gfs {
			b, err := os.ReadFile(f)
			if err != nil {
				return nil, err
			}
			virt := filepath.Join(repoDir, "gennames", "zz_verif_"+filepath.Base(f))
			ov[virt] = b
			genOv[virt] = f
		}
		patterns = append(patterns, "./gennames")
	}
	cfg := &packages.Config{
		Mode:    packages.LoadAllSyntax,
		Dir:     repoDir,
		Overlay: ov,
		Env:     append(os.Environ(), "GOFLAGS=-mod=mod", "GOPROXY=off", "GOSUMDB=off", "GOTOOLCHAIN=local"),
	}
	pkgs, err := packages.Load(cfg, patterns...)
	if err != nil {
		return nil, err
	}
	var errs []string
	packages.Visit(pkgs, nil, func(p *packages.Package) {
		for _, e := range p.Errors {
			errs = append(errs, e.Error())
		}
	})
	if len(errs) > 0 {
		return nil, fmt.Errorf("package load errors:\n%s", strings.Join(errs, "\n"))
	}
	prog, spkgs := ssautil.AllPackages(pkgs, ssa.InstantiateGenerics)
	l := &Loaded{prog: prog, pkgs: map[*ssa.Package]bool{}, overlay: ovPaths, genOv: genOv}
	for _, sp := range spkgs {
		if sp != nil && sp.Pkg.Path() == "github.com/dave/jennifer/jen" {
			l.jen = sp
			sp.Build()
			l.pkgs[sp] = true
		}
		if sp != nil && loadGennames && sp.Pkg.Path() == "github.com/dave/jennifer/gennames" {
			l.gen = sp
			sp.Build()
			l.pkgs[sp] = true
		}
	}
	if l.jen == nil {
		return nil, fmt.Errorf("package jen not found")
	}
	l.loadS = time.Since(t0).Seconds()
	return l, nil
}

type HarnessResult struct {
	Name     string
	Leaves   []*Leaf
	Obligs   []*Oblig
	Encoded  []string
	Paths    int64
	Decs     int64
	Aborted  bool
	TimedOut bool
	KeptUnk  int64
	WallS    float64
}

type tierCfg struct {
	feasTO, obligTO int
	maxPaths        int64
}

func runHarness(l *Loaded, fn *ssa.Function, tier int, workers int) *HarnessResult {
	t0 := time.Now()
	ex := &Explorer{
		prog: l.prog, pkgs: l.pkgs, harness: fn, name: fn.Name(), tier: tier,
		maxSteps: 5_000_000, feasTO: 3000, obligTO: 8000, useCVC: true,
		encoded: map[string]bool{}, maxPaths: 200000,
	}
	if tier == 1 {
		ex.feasTO, ex.obligTO, ex.maxPaths = 6000, 30000, 2000000
	}
	// time budget per harness: exploration stops, the candidates found so far are still replayed and
	// reported, and the check says that the exploration was incomplete
	budget := 12 * time.Minute
	if tier == 1 {
		budget = 40 * time.Minute
	}
	if v := os.Getenv("GOSMT_HARNESS_BUDGET_S"); v != "" {
		budget = time.Duration(atoiOr(v, 900)) * time.Second
	}
	ex.deadline = t0.Add(budget)
	if v := os.Getenv("GOSMT_MAXPATHS"); v != "" {
		ex.maxPaths = int64(atoiOr(v, 1000))
	}
	concreteMu.Lock()
	first := concreteEx == nil
	if first {
		concreteEx = ex
	}
	concreteMu.Unlock()
	if first {
		summaryBattery()
	}
	if v := os.Getenv("GOSMT_NOCVC"); v != "" {
		ex.useCVC = false
	}
	ex.run(workers)
	r := &HarnessResult{Name: fn.Name(), Leaves: ex.leaves, Obligs: ex.obligs, Paths: ex.paths, Decs: ex.decisions, Aborted: ex.aborted, TimedOut: ex.timedOut, KeptUnk: ex.keptUnknown}
	for f := range ex.encoded {
		r.Encoded = append(r.Encoded, f)
	}
	sort.Strings(r.Encoded)
	r.WallS = time.Since(t0).Seconds()
	return r
}

func harnessesFor(l *Loaded, id string) []*ssa.Function {
	var out []*ssa.Function
	for name, m := range l.jen.Members {
		if f, ok := m.(*ssa.Function); ok && strings.HasPrefix(name, "H_"+id+"_") {
			out = append(out, f)
		}
	}
	if l.gen != nil {
		for name, m := range l.gen.Members {
			if f, ok := m.(*ssa.Function); ok && strings.HasPrefix(name, "H_"+id+"_") {
				out = append(out, f)
			}
		}
	}
	sort.Slice(out, func(i, j int) bool { return out[i].Name() < out[j].Name() })
	return out
}

func ssaHash(fn *ssa.Function) string {
	var sb strings.Builder
	fn.WriteTo(&sb)
	h := sha256.Sum256([]byte(sb.String()))
	return fmt.Sprintf("%x", h[:6])
}

func main() {
	initBattery()
	if len(os.Args) < 2 {
		fmt.Fprintln(os.Stderr, "usage: gosmt check <ID> [--tier quick|thorough] | gosmt run <Harness> | gosmt replay <dir>")
		os.Exit(2)
	}
	switch os.Args[1] {
	case "check":
		os.Exit(cmdCheck(os.Args[2:]))
	case "run":
		os.Exit(cmdRun(os.Args[2:]))
	case "replay":
		os.Exit(cmdReplay(os.Args[2:]))
	}
	fmt.Fprintln(os.Stderr, "unknown command")
	os.Exit(2)
}

func tierFromArgs(fs *flag.FlagSet, args []string) (int, string, []string) {
	tierS := fs.String("tier", envOr("VERIF_TIER", "quick"), "quick|thorough")
	fs.Parse(args)
	t := 0
	if *tierS == "thorough" {
		t = 1
	}
	return t, *tierS, fs.Args()
}

// cmdRun: debugging aid, runs one harness and prints leaves/obligations.
func cmdRun(args []string) int {
	if len(args) < 1 {
		return 2
	}
	name := args[0]
	fs := flag.NewFlagSet("run", flag.ExitOnError)
	workers := fs.Int("workers", runtime.NumCPU(), "workers")
	verbose := fs.Bool("v", false, "verbose")
	tier, _, _ := tierFromArgs(fs, args[1:])
	if strings.Contains(name, "gennames") {
		loadGennames = true
	}
	if strings.Contains(name, "_gen_") {
		gp, _, gerr := generateAPIHarness()
		if gerr != nil {
			fmt.Fprintln(os.Stderr, gerr)
			return 2
		}
		extraHarness = append(extraHarness, gp)
		defer os.RemoveAll(filepath.Dir(gp))
	}
	l, err := load()
	if err != nil {
		fmt.Fprintln(os.Stderr, err)
		return 2
	}
	fn := l.jen.Func(name)
	if fn == nil && l.gen != nil {
		fn = l.gen.Func(name)
	}
	if fn == nil {
		fmt.Fprintln(os.Stderr, "no such harness")
		return 2
	}
	initPool(*workers)
	r := runHarness(l, fn, tier, *workers)
	printHarness(r, *verbose)
	fmt.Printf("load %.1fs, wall %.1fs, queries %d (z3 %d/%.1fs, z3-new %d/%.1fs, cvc5 %d/%.1fs) errors %d unknown %d\n", l.loadS, r.WallS,
		stats.Queries, stats.QZ3, float64(stats.NanosZ3)/1e9, stats.QZN, float64(stats.NanosZN)/1e9, stats.QCV, float64(stats.NanosCV)/1e9, stats.Errors, stats.Unknown)
	return 0
}

func printHarness(r *HarnessResult, verbose bool) {
	oc := map[string]int{}
	for _, lf := range r.Leaves {
		oc[lf.Outcome]++
	}
	st := map[string]int{}
	for _, o := range r.Obligs {
		st[o.Status]++
	}
	fmt.Printf("harness %s: paths=%d decisions=%d outcomes=%v obligations=%v keptOnUnknown=%d aborted=%v\n", r.Name, r.Paths, r.Decs, oc, st, r.KeptUnk, r.Aborted)
	for _, lf := range r.Leaves {
		if verbose || (lf.Outcome != "ok" && lf.Outcome != "assume" && lf.Outcome != "infeasible") {
			fmt.Printf("  leaf %s outcome=%s msg=%s steps=%d choices=%v\n", lf.PathID, lf.Outcome, lf.Msg, lf.Steps, lf.Choices)
			if verbose {
				for _, c := range lf.PC {
					fmt.Printf("     pc: %s\n", truncate(c.String(), 300))
				}
				for _, o := range lf.Obs {
					fmt.Printf("     obs %s = %s\n", o.Label, truncate(o.Val.String(), 600))
				}
			}
		}
	}
	for _, o := range r.Obligs {
		if verbose || (o.Status != "folded" && o.Status != "discharged") {
			fmt.Printf("  oblig %s@%s %s %v %s\n     cond: %s\n     model: %v choices: %v\n", o.Label, o.PathID, o.Status, o.Solvers, o.Reason, o.Cond, o.Model, o.Choices)
		}
	}
}

// ---- solver pool shared by all explorers

var pool chan *SolverSet

func initPool(n int) {
	pool = make(chan *SolverSet, n)
	for i := 0; i < n; i++ {
		pool <- nil
	}
}

var poolMu sync.Mutex
var poolAll []*SolverSet

func borrowSolvers() *SolverSet {
	ss := <-pool
	if ss == nil {
		ss = newSolverSet()
		poolMu.Lock()
		poolAll = append(poolAll, ss)
		poolMu.Unlock()
	}
	return ss
}

func returnSolvers(ss *SolverSet) { pool <- ss }

func closePool() {
	poolMu.Lock()
	for _, ss := range poolAll {
		ss.close()
	}
	poolAll = nil
	poolMu.Unlock()
}

func atoiOr(s string, d int) int {
	if v, err := strconv.Atoi(s); err == nil {
		return v
	}
	return d
}

func writeJSON(path string, v interface{}) error {
	b, err := json.MarshalIndent(v, "", " ")
	if err != nil {
		return err
	}
	os.MkdirAll(filepath.Dir(path), 0755)
	return os.WriteFile(path, append(b, '\n'), 0644)
}

func ssaAllFunctions(l *Loaded) map[*ssa.Function]bool {
	return ssautil.AllFunctions(l.prog)
}
