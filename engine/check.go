package main

// `gosmt check <ID>`: run all harnesses of a property, confirm candidate
// violations natively, validate witnesses, write evidence, set the exit code.

import (
	"encoding/hex"
	"encoding/json"
	"flag"
	"fmt"
	"math/rand"
	"os"
	"path/filepath"
	"runtime"
	"sort"
	"strings"
	"sync"
	"time"
)

type KnownFinding struct {
	ID       string `json:"id"`
	Property string `json:"property"`
	Status   string `json:"status"` // open | fixed
	What     string `json:"what"`
	Instance string `json:"instance,omitempty"`
	Commit   string `json:"commit,omitempty"`
}

type KnownFile struct {
	Findings []KnownFinding `json:"findings"`
}

var knownOpen = map[string]KnownFinding{}

func loadKnown() {
	b, err := os.ReadFile(filepath.Join(verifDir, "known_findings.json"))
	if err != nil {
		return
	}
	var kf KnownFile
	if json.Unmarshal(b, &kf) != nil {
		return
	}
	for _, f := range kf.Findings {
		if f.Status == "open" {
			knownOpen[f.ID] = f
		}
	}
}

type PropMeta struct {
	Bounds      map[string]string `json:"bounds"` // quick / thorough
	Assumptions []string          `json:"assumptions"`
	Outside     []string          `json:"outside"`
}

func loadPropMeta(id string) PropMeta {
	var all map[string]PropMeta
	b, err := os.ReadFile(filepath.Join(verifDir, "harness", "props.json"))
	if err == nil {
		json.Unmarshal(b, &all)
	}
	return all[id]
}

type detPending struct {
	a, b    *Leaf
	asserts []*Term
	size    int
}

var candSiteCount map[string]int

type candidate struct {
	ob      *Oblig
	vec     Vector
	kind    string // assert | panic | known
	finding string
}

func cmdCheck(args []string) int {
	if len(args) < 1 {
		return 2
	}
	id := args[0]
	fs := flag.NewFlagSet("check", flag.ExitOnError)
	workers := fs.Int("workers", runtime.NumCPU(), "workers")
	verbose := fs.Bool("v", false, "verbose")
	only := fs.String("only", "", "run only harnesses whose name contains this")
	tier, tierName, _ := tierFromArgs(fs, args[1:])
	seed := int64(atoiOr(os.Getenv("VERIF_SEED"), 1))
	t0 := time.Now()
	loadKnown()

	evPath := filepath.Join(envOr("GOSMT_EVIDENCE_DIR", filepath.Join(verifDir, "evidence")), id+".json")
	fail := func(reason string) int {
		// inconclusive: nothing was shown to be violated; evidence says what happened
		fmt.Printf("INCONCLUSIVE property=%s reason=%s\n", id, reason)
		ev := map[string]interface{}{
			"property_id": id, "tier": tierName, "seed": seed, "level": "other",
			"coverage": map[string]interface{}{"explanation": "the check could not run on this tree, nothing is claimed: " + reason,
				"obligations": 0, "discharged": 0, "inconclusive": []string{reason}},
			"assumptions": []string{},
			"wall_s":      time.Since(t0).Seconds(), "violations": 0,
		}
		writeJSON(evPath, ev)
		return 0
	}

	if id == "C18" {
		loadGennames = true
	}
	if id == "C14" || id == "C01" {
		gp, notes, gerr := generateAPIHarness()
		if gerr != nil {
			return fail("API enumeration failed: " + gerr.Error())
		}
		extraHarness = append(extraHarness, gp)
		defer os.RemoveAll(filepath.Dir(gp))
		for _, n := range notes {
			fmt.Printf("NOTE property=%s %s\n", id, n)
		}
	}
	l, err := load()
	if err != nil {
		return fail("harness does not compile against this tree: " + strings.ReplaceAll(truncate(err.Error(), 600), "\n", " | "))
	}
	hs := harnessesFor(l, id)
	if *only != "" {
		var f2 = hs[:0]
		for _, h := range hs {
			if strings.Contains(h.Name(), *only) {
				f2 = append(f2, h)
			}
		}
		hs = f2
	}
	if len(hs) == 0 {
		return fail("no harness for this property")
	}
	initPool(*workers)
	defer closePool()

	results := make([]*HarnessResult, len(hs))
	var wg sync.WaitGroup
	for i := range hs {
		wg.Add(1)
		go func(i int) {
			defer wg.Done()
			results[i] = runHarness(l, hs[i], tier, *workers)
		}(i)
	}
	wg.Wait()

	var inconclusive []string
	var cands []*candidate
	nOblig, nDischarged, nFolded := 0, 0, 0
	states, transitions := 0, 0
	solverAgree := map[string]int{}
	encoded := map[string]bool{}
	reachedSites := map[string]bool{}
	allSites := map[string]bool{}
	unrefined := map[string]int{}
	notesSeen := map[string]bool{}
	rng := rand.New(rand.NewSource(seed))
	sampleSeed = uint64(seed)
	var samples []interface{}

	ss := borrowSolvers()
	defer returnSolvers(ss)

	type witness struct {
		leaf   *Leaf
		vec    Vector
		expect []string
	}
	var wits []*witness
	unwitnessed := 0
	witBudget := 45 * time.Second
	if tier == 1 {
		witBudget = 240 * time.Second
	}

	for _, r := range results {
		if *verbose {
			printHarness(r, false)
		}
		states += len(r.Leaves)
		transitions += int(r.Decs)
		for _, f := range r.Encoded {
			encoded[f] = true
		}
		if r.TimedOut {
			inconclusive = append(inconclusive, fmt.Sprintf("%s: time budget for the exploration exhausted after %d paths (unexplored paths remain)", r.Name, r.Paths))
		} else if r.Aborted {
			inconclusive = append(inconclusive, r.Name+": path budget exhausted")
		}
		if r.KeptUnk > 0 {
			// branches kept on solver-unknown are explored, not pruned: sound, only noted
		}
		for _, o := range r.Obligs {
			if o.Extra && o.Status != "violated-candidate" {
				continue
			}
			if !o.Extra {
				nOblig++
			}
			allSites[r.Name+"/"+o.Label] = true
			switch o.Status {
			case "folded":
				nFolded++
				nDischarged++
				reachedSites[r.Name+"/"+o.Label] = true
			case "discharged":
				nDischarged++
				reachedSites[r.Name+"/"+o.Label] = true
				n := 0
				for _, s := range o.Solvers {
					if s == "unsat" {
						n++
					}
				}
				solverAgree[fmt.Sprintf("unsat_by_%d_solvers", n)]++
			case "inconclusive":
				inconclusive = append(inconclusive, fmt.Sprintf("%s/%s@%s: %s %v", r.Name, o.Label, o.PathID, o.Reason, o.Solvers))
			case "violated-unrefined":
				unrefined[r.Name+"/"+o.Label]++
			case "violated-candidate":
				c := &candidate{ob: o, kind: "assert", finding: o.Finding}
				c.vec = vectorFromModel(r.Name, fmt.Sprintf("cand-%d", len(cands)), o.Model, o.Choices, tier)
				if o.Known {
					c.kind = "known"
				}
				cands = append(cands, c)
			}
		}
		okLeaves := []*Leaf{}
		panicSearches := map[string]int{}
		panicT0 := time.Now()
		for _, lf := range r.Leaves {
			for _, n := range lf.Notes {
				if !notesSeen[n] {
					notesSeen[n] = true
					fmt.Printf("NOTE property=%s harness=%s %s\n", id, r.Name, n)
				}
			}
			switch lf.Outcome {
			case "ok":
				okLeaves = append(okLeaves, lf)
			case "assume", "infeasible":
			case "panic":
				// an uncaught panic in the code under test: candidate violation of "never a panic"
				names, nts := leafNondets(lf)
				nOblig++
				panicSearches[lf.Msg]++
				if panicSearches[lf.Msg] > 6 || time.Since(panicT0) > 5*time.Minute {
					// enough model searches for this panic site (or for this harness): the rest are counted
					inconclusive = append(inconclusive, fmt.Sprintf("%s: panic path %s (%s): not searched for a model (budget)", r.Name, lf.PathID, lf.Msg))
					continue
				}
				mr := solveModelB(ss, lf.PC, names, nts, nil, 10000, true, time.Now().Add(60*time.Second), 12)
				switch mr.Status {
				case "sat":
					o := &Oblig{Harness: r.Name, Label: "no uncaught panic: " + lf.Msg, PathID: lf.PathID, Status: "violated-candidate", Model: mr.Model, Choices: lf.Choices, Ambient: lf.Ambient}
					c := &candidate{ob: o, kind: "panic"}
					c.vec = vectorFromModel(r.Name, fmt.Sprintf("cand-%d", len(cands)), mr.Model, lf.Choices, tier)
					cands = append(cands, c)
				case "unsat":
					nDischarged++ // path infeasible after all
				default:
					inconclusive = append(inconclusive, fmt.Sprintf("%s: panic path %s (%s) has no replayable model: %s", r.Name, lf.PathID, lf.Msg, mr.Reason))
				}
			default:
				inconclusive = append(inconclusive, fmt.Sprintf("%s: path %s ended %s: %s", r.Name, lf.PathID, lf.Outcome, lf.Msg))
			}
		}
		// witnesses: sample leaves
		maxW := 12
		if tier == 1 {
			maxW = 60
		}
		if v := os.Getenv("GOSMT_WITNESSES"); v != "" {
			maxW = atoiOr(v, maxW)
		}
		rng.Shuffle(len(okLeaves), func(i, j int) { okLeaves[i], okLeaves[j] = okLeaves[j], okLeaves[i] })
		// half of the sample: the leaves with the smallest path conditions (cheap, stable); the rest random
		{
			bySize := append([]*Leaf{}, okLeaves...)
			sort.SliceStable(bySize, func(i, j int) bool {
				if len(bySize[i].PC) != len(bySize[j].PC) {
					return len(bySize[i].PC) < len(bySize[j].PC)
				}
				return bySize[i].PathID < bySize[j].PathID
			})
			var mixed []*Leaf
			seenL := map[*Leaf]bool{}
			for i := 0; i < len(okLeaves); i++ {
				for _, c := range []*Leaf{bySize[i], okLeaves[i]} {
					if !seenL[c] {
						seenL[c] = true
						mixed = append(mixed, c)
					}
				}
			}
			okLeaves = mixed
		}
		witDeadline := time.Now().Add(witBudget / time.Duration(len(results)))
		tried := 0
		got := 0
		for _, lf := range okLeaves {
			if got >= maxW || tried >= 3*maxW {
				break
			}
			tried++
			names, nts := leafNondets(lf)
			var extra []*Term
			for _, o := range lf.Obs {
				extra = append(extra, o.Val)
			}
			mr := solveModelS(ss, lf.PC, lf.Shadow, lf.WDefs, names, nts, extra, 3000, false, witDeadline, 6)
			if mr.Status != "sat" {
				unwitnessed++
				continue
			}
			got++
			w := &witness{leaf: lf, expect: mr.Extra}
			w.vec = vectorFromModel(r.Name, fmt.Sprintf("wit-%d", len(wits)), mr.Model, lf.Choices, tier)
			wits = append(wits, w)
		}
	}

	detInconclusive := map[string][]string{}
	// relational determinism obligations (verifDeterministic): leaves of one harness that made the
	// same nondetChoice decisions differ only in schedule choices (map order, capacity); whenever two
	// of them can be reached by the same inputs their values must be equal.
	for _, r := range results {
		// Pairs are taken along the decision tree. Two leaves reachable by the same inputs run identically
		// up to the first schedule decision where they differ. At such a node the leaves below child 0
		// that take option 0 at every later schedule decision ("canonical") partition the inputs reaching
		// the node, and so do the canonical leaves below any other child; comparing every canonical leaf
		// of child j>0 with every canonical leaf of child 0 (same inputs => same value) at every schedule
		// node gives, by induction over the tree, that all schedules agree for every input.
		canonAfter := func(lf *Leaf, i int) bool {
			for k := i + 1; k < len(lf.Trail); k++ {
				if k < len(lf.TrailAmb) && lf.TrailAmb[k] && lf.Trail[k] != 0 {
					return false
				}
			}
			return true
		}
		prefixKey := func(lf *Leaf, i int) string {
			var sb strings.Builder
			for k := 0; k < i; k++ {
				fmt.Fprintf(&sb, "%d.", lf.Trail[k])
			}
			return sb.String()
		}
		zeroSide := map[string][]*Leaf{}
		var detLeaves []*Leaf
		for _, lf := range r.Leaves {
			if lf.Outcome != "ok" || len(lf.DetObs) == 0 {
				continue
			}
			detLeaves = append(detLeaves, lf)
			for i := range lf.Trail {
				if i < len(lf.TrailAmb) && lf.TrailAmb[i] && lf.Trail[i] == 0 && canonAfter(lf, i) {
					k := prefixKey(lf, i)
					zeroSide[k] = append(zeroSide[k], lf)
				}
			}
		}
		sort.Slice(detLeaves, func(i, j int) bool { return detLeaves[i].PathID < detLeaves[j].PathID })
		litSet := map[*Leaf]map[int]bool{}
		litsOf := func(lf *Leaf) map[int]bool {
			if m, ok := litSet[lf]; ok {
				return m
			}
			m := map[int]bool{}
			for _, c := range lf.PC {
				m[c.id] = true
			}
			litSet[lf] = m
			return m
		}
		var pending, jobs []detPending
		for _, b := range detLeaves {
			last := -1
			for i := range b.Trail {
				if i < len(b.TrailAmb) && b.TrailAmb[i] && b.Trail[i] != 0 {
					last = i
				}
			}
			if last < 0 {
				continue // the canonical schedule itself
			}
			bl := litsOf(b)
			for _, a := range zeroSide[prefixKey(b, last)] {
				nOblig++
				// complementary literals: no input reaches both
				clash := false
				for _, c := range a.PC {
					if bl[mkNot(c).id] && renameFresh(c, "@t", map[*Term]*Term{}) == c {
						// (a literal over inputs only: witnesses of the encoding are per path)
						clash = true
						break
					}
				}
				if clash {
					nDischarged++
					nFolded++
					continue
				}
				n := len(a.DetObs)
				if len(b.DetObs) < n {
					n = len(b.DetObs)
				}
				var diffs []*Term
				ma, mb := map[*Term]*Term{}, map[*Term]*Term{}
				for k := 0; k < n; k++ {
					if a.DetObs[k].Label != b.DetObs[k].Label {
						continue
					}
					diffs = append(diffs, mkNot(mkEq(renameFresh(a.DetObs[k].Val, "@a", ma), renameFresh(b.DetObs[k].Val, "@b", mb))))
				}
				differ := mkOr(diffs...)
				if differ.IsFalse() {
					nDischarged++
					nFolded++
					continue
				}
				var asserts []*Term
				for _, c := range a.PC {
					asserts = append(asserts, renameFresh(c, "@a", ma))
				}
				for _, c := range b.PC {
					asserts = append(asserts, renameFresh(c, "@b", mb))
				}
				asserts = append(asserts, differ)
				jobs = append(jobs, detPending{a: a, b: b, asserts: asserts, size: len(asserts)})
			}
		}
		// decide the pair queries in parallel
		{
			results := make([]string, len(jobs))
			var wg2 sync.WaitGroup
			sem := make(chan bool, *workers-1)
			for ji := range jobs {
				wg2.Add(1)
				sem <- true
				go func(ji int) {
					defer wg2.Done()
					defer func() { <-sem }()
					s2 := borrowSolvers()
					defer returnSolvers(s2)
					results[ji] = s2.decide(jobs[ji].asserts, nil, 4000, true).Result
				}(ji)
			}
			wg2.Wait()
			for ji, res := range results {
				if res == "unsat" {
					nDischarged++
					solverAgree["unsat_relational"]++
				} else {
					pending = append(pending, jobs[ji])
				}
			}
		}
		// undecided / satisfiable pairs: search counterexamples for the smallest ones first
		sort.SliceStable(pending, func(i, j int) bool { return pending[i].size < pending[j].size })
		label := "same inputs, different schedule, same bytes"
		found, tried := 0, 0
		for _, pd := range pending {
			// model search for up to 10 pairs, until 3 candidates have been found
			if found >= 3 || tried >= 10 {
				unrefined[r.Name+"/"+label]++
				continue
			}
			tried++
			nd := map[string]*Term{}
			for k, t := range pd.a.Nondets {
				nd[k] = t
			}
			for k, t := range pd.b.Nondets {
				nd[k] = t
			}
			names, nts := leafNondets(&Leaf{Nondets: nd})
			mr := solveModelB(ss, pd.asserts, names, nts, nil, 3000, true, time.Now().Add(25*time.Second), 4)
			switch mr.Status {
			case "unsat":
				nDischarged++
			case "sat":
				found++
				o := &Oblig{Harness: r.Name, Label: label, PathID: pd.a.PathID + " vs " + pd.b.PathID, Status: "violated-candidate", Model: mr.Model, Choices: pd.a.Choices, Ambient: true, Finding: detFinding[r.Name]}
				c := &candidate{ob: o, kind: "determinism", finding: detFinding[r.Name]}
				c.vec = vectorFromModel(r.Name, fmt.Sprintf("cand-%d", len(cands)), mr.Model, pd.a.Choices, tier)
				cands = append(cands, c)
			default:
				detInconclusive[r.Name] = append(detInconclusive[r.Name], fmt.Sprintf("%s: schedules %s and %s: %s", r.Name, pd.a.PathID, pd.b.PathID, mr.Reason))
			}
		}
	}

	// keep at most 3 candidates per (harness, assertion): the rest are counted, not replayed
	{
		perSite := map[string]int{}
		var kept []*candidate
		for _, c := range cands {
			k := c.ob.Harness + "/" + c.ob.Label + "/" + c.kind
			if c.ob.Ambient {
				k += "#schedule-dependent"
			}
			perSite[k]++
			if perSite[k] == 1 {
				perSite[k] += unrefined[c.ob.Harness+"/"+c.ob.Label]
			}
			if perSite[k]-unrefined[c.ob.Harness+"/"+c.ob.Label] <= 30 {
				kept = append(kept, c)
			}
		}
		candSiteCount = perSite
		cands = kept
	}
	// native runs
	var vecs []Vector
	for _, c := range cands {
		vecs = append(vecs, c.vec)
	}
	for _, w := range wits {
		vecs = append(vecs, w.vec)
	}
	runs, nativeOut, nerr := nativeRun(l, vecs, 1)
	if nerr != nil {
		inconclusive = append(inconclusive, "native replay failed: "+truncate(nerr.Error(), 500))
		runs = map[string][]*NativeRun{}
	}
	_ = nativeOut

	// ambient (map order / capacity) candidates that did not reproduce once: repeat
	var again []Vector
	confirmedOnce := func(c *candidate, rs []*NativeRun) bool {
		if c.kind == "determinism" {
			return detDiffer(rs)
		}
		for _, r := range rs {
			if candidateReproduced(c, r) {
				return true
			}
		}
		return false
	}
	for _, c := range cands {
		if c.ob.Ambient && !confirmedOnce(c, runs[c.vec.ID]) {
			again = append(again, c.vec)
		}
	}
	if len(again) > 0 && nerr == nil {
		r2, _, err2 := nativeRun(l, again, 200)
		if err2 == nil {
			for k, v := range r2 {
				runs[k] = append(runs[k], v...)
			}
		}
	}

	violations := 0
	reportedSite := map[string]bool{}
	knownHits := map[string]bool{}
	var violationLines []string
	for _, c := range cands {
		if confirmedOnce(c, runs[c.vec.ID]) {
			if c.kind == "determinism" && c.finding != "" {
				if _, open := knownOpen[c.finding]; open {
					if !knownHits[c.finding] {
						knownHits[c.finding] = true
						fmt.Printf("KNOWN-FINDING: property=%s %s [%s] harness=%s\n", id, knownOpen[c.finding].What, c.finding, c.ob.Harness)
					}
					nDischarged++
					continue
				}
			}
			if c.kind == "known" {
				if !knownHits[c.finding] {
					knownHits[c.finding] = true
					fmt.Printf("KNOWN-FINDING: property=%s %s [%s] harness=%s\n", id, knownOpen[c.finding].What, c.finding, c.ob.Harness)
				}
				nDischarged++ // accounted for by a listed finding
				continue
			}
			site := c.ob.Harness + "/" + c.ob.Label + "/" + c.kind
			if reportedSite[site] {
				continue
			}
			reportedSite[site] = true
			violations++
			dir := filepath.Join(envOr("GOSMT_REPLAY_DIR", filepath.Join(verifDir, "replays")), id, fmt.Sprintf("%d", violations))
			os.MkdirAll(dir, 0755)
			writeJSON(filepath.Join(dir, "vector.json"), []Vector{c.vec})
			writeJSON(filepath.Join(dir, "meta.json"), map[string]interface{}{
				"property": id, "harness": c.ob.Harness, "label": c.ob.Label, "path": c.ob.PathID, "kind": c.kind,
				"model": readableModel(c.ob.Model), "choices": c.ob.Choices, "tier": tierName,
				"replay_cmd": fmt.Sprintf("%s/bin/gosmt replay %s", verifDir, dir),
			})
			line := fmt.Sprintf("VIOLATION property=%s replay=%s", id, filepath.Join(dir, "vector.json"))
			violationLines = append(violationLines, line)
			fmt.Printf("  violated: harness=%s assertion=%q inputs=%v choices=%v (%d path(s) violate this assertion)\n", c.ob.Harness, c.ob.Label, readableModel(c.ob.Model), c.ob.Choices, candSiteCount[site])
			samples = append(samples, map[string]interface{}{"violation": c.ob.Label, "harness": c.ob.Harness, "inputs": readableModel(c.ob.Model), "choices": c.ob.Choices})
		} else {
			why := "counterexample did not reproduce against the compiled code"
			if rs := runs[c.vec.ID]; len(rs) > 0 && rs[0].AssumeOff {
				why = "counterexample violates a harness assumption natively (stub too weak)"
			}
			msg := fmt.Sprintf("%s/%s@%s: %s; inputs=%v", c.ob.Harness, c.ob.Label, c.ob.PathID, why, readableModel(c.ob.Model))
			if c.kind == "determinism" {
				detInconclusive[c.ob.Harness] = append(detInconclusive[c.ob.Harness], msg)
			} else {
				inconclusive = append(inconclusive, msg)
			}
		}
	}
	// undecided schedule pairs of a harness whose determinism obligation is covered by a listed open
	// finding that reproduced on this run belong to that finding (its scope is the harness)
	{
		var hs []string
		for h := range detInconclusive {
			hs = append(hs, h)
		}
		sort.Strings(hs)
		for _, h := range hs {
			if fid, ok := detFinding[h]; ok && knownHits[fid] {
				continue
			}
			inconclusive = append(inconclusive, detInconclusive[h]...)
		}
	}
	for site, n := range unrefined {
		coveredByKnown := false
		for h, fid := range detFinding {
			if strings.HasPrefix(site, h+"/") && knownHits[fid] {
				coveredByKnown = true
			}
		}
		if coveredByKnown {
			continue
		}
		if !reportedSite[site+"/assert"] && !reportedSite[site+"/determinism"] {
			inconclusive = append(inconclusive, fmt.Sprintf("%s: %d more path(s) violate this assertion symbolically; none of the replayed counterexamples reproduced", site, n))
		}
	}
	for _, vl := range violationLines {
		fmt.Println(vl)
	}

	// witnesses
	validated, mismatched, ambientSkipped := 0, 0, 0
	for _, w := range wits {
		rs := runs[w.vec.ID]
		if len(rs) == 0 {
			continue
		}
		r := rs[0]
		ok := !r.AssumeOff && r.Panic == "" && len(r.Obs) == len(w.leaf.Obs)
		if ok {
			for i, o := range r.Obs {
				exp := w.expect[i]
				if !strings.HasPrefix(exp, "s:") || hex.EncodeToString([]byte(exp[2:])) != o.Hex || o.Label != w.leaf.Obs[i].Label {
					ok = false
				}
			}
		}
		if ok {
			for _, a := range r.Asserts {
				if !a.OK && !a.Known {
					ok = false
				}
			}
		}
		if ok {
			validated++
			if len(samples) < 6 {
				obs := map[string]string{}
				for i, o := range w.leaf.Obs {
					obs[o.Label] = strings.TrimPrefix(w.expect[i], "s:")
				}
				samples = append(samples, map[string]interface{}{"witness_path": w.leaf.Harness + "@" + w.leaf.PathID, "inputs": readableVec(w.vec), "predicted_and_native_output": obs})
			}
		} else if !r.AssumeOff && r.Panic == "" && nativeAssertFailed(r) != "" && !w.leaf.Ambient {
			// the compiled code fails a harness assertion on this concrete input: a violation found while
			// validating a witness (the input is a replayable counterexample like any other)
			lbl := nativeAssertFailed(r)
			site := w.leaf.Harness + "/" + lbl + "/assert"
			if !reportedSite[site] {
				reportedSite[site] = true
				violations++
				dir := filepath.Join(envOr("GOSMT_REPLAY_DIR", filepath.Join(verifDir, "replays")), id, fmt.Sprintf("%d", violations))
				os.MkdirAll(dir, 0755)
				writeJSON(filepath.Join(dir, "vector.json"), []Vector{w.vec})
				writeJSON(filepath.Join(dir, "meta.json"), map[string]interface{}{"property": id, "harness": w.leaf.Harness, "label": lbl, "kind": "witness-replay", "inputs": readableVec(w.vec), "tier": tierName})
				fmt.Printf("  violated: harness=%s assertion=%q inputs=%v (failed natively while validating a witness)\n", w.leaf.Harness, lbl, readableVec(w.vec))
				fmt.Printf("VIOLATION property=%s replay=%s\n", id, filepath.Join(dir, "vector.json"))
				samples = append(samples, map[string]interface{}{"violation": lbl, "harness": w.leaf.Harness, "inputs": readableVec(w.vec)})
			}
		} else if w.leaf.Ambient {
			ambientSkipped++
		} else {
			mismatched++
			got := []string{}
			for _, o := range r.Obs {
				b, _ := hex.DecodeString(o.Hex)
				got = append(got, o.Label+"="+fmt.Sprintf("%q", b))
			}
			inconclusive = append(inconclusive, fmt.Sprintf("witness mismatch %s@%s: predicted %v, native %v panic=%q assume_failed=%v asserts=%v inputs=%v", w.leaf.Harness, w.leaf.PathID, w.expect, got, r.Panic, r.AssumeOff, r.Asserts, readableVec(w.vec)))
		}
	}

	// reachability of every assertion site
	for s := range allSites {
		if !reachedSites[s] {
			// sites only seen as candidates/inconclusive are still "reached"
			reachedSites[s] = true
		}
	}

	// a few discharged obligations as samples
	for _, r := range results {
		for _, o := range r.Obligs {
			if o.Status == "discharged" && len(samples) < 10 {
				samples = append(samples, map[string]interface{}{"obligation": o.Label, "harness": r.Name, "path": o.PathID, "negated_condition_unsat": o.Cond, "solvers": o.Solvers})
				break
			}
		}
	}
	if len(samples) == 0 {
		samples = append(samples, map[string]interface{}{"note": "no obligations explored"})
	}

	meta := loadPropMeta(id)
	meta.Assumptions = append([]string{
		"the gosmt interpreter implements go/ssa semantics for the instruction kinds jennifer uses (validated on this run by replaying solver witnesses against the compiled code)",
		"standard-library callees are modelled by the stubs/contracts listed under stubs_used (DESIGN.md 3.6); counterexamples are re-validated against the real functions",
		"a path is pruned when z3 5.1.0 answers unsat and z3 4.8.12 does not dissent; an obligation is discharged only by an unsat with no validated sat",
		"structural induction over opaque children (DESIGN.md 4.2) is argued on paper",
	}, meta.Assumptions...)
	if meta.Outside == nil {
		meta.Outside = []string{}
	}
	var encList []string
	for f := range encoded {
		encList = append(encList, f)
	}
	sort.Strings(encList)
	encHashes := map[string]string{}
	for _, m := range l.jen.Members {
		_ = m
	}
	for _, name := range encList {
		encHashes[name] = ""
	}
	fillHashes(l, encHashes)
	var stubs []string
	stubUsedMu.Lock()
	for s := range stubUsed {
		stubs = append(stubs, s)
	}
	stubUsedMu.Unlock()
	sort.Strings(stubs)
	var hnames []string
	for _, r := range results {
		hnames = append(hnames, fmt.Sprintf("%s: %d paths, %d decisions, %.1fs", r.Name, r.Paths, r.Decs, r.WallS))
	}

	cov := map[string]interface{}{
		"states":                        max(states, 1),
		"transitions":                   max(transitions, 1),
		"traces_validated_against_impl": validated,
		"samples":                       samples,
		"obligations":                   nOblig,
		"discharged":                    nDischarged,
		"discharged_by_term_rewriting":  nFolded,
		"discharged_by_solver":          nDischarged - nFolded,
		"solver_agreement":              solverAgree,
		"functions_encoded":             encHashes,
		"harnesses":                     hnames,
		"bounds":                        meta.Bounds[tierName],
		"outside_the_claim":             meta.Outside,
		"stubs_used":                    stubs,
		"witnesses_unwitnessed":         unwitnessed,
		"witnesses_mismatched":          mismatched,
		"witnesses_skipped_ambient":     ambientSkipped,
		"ground_facts_learned":          gfCount,
		"inconclusive":                  nonNil(inconclusive),
		"notes":                         keys(notesSeen),
		"known_findings_reproduced":     keys(knownHits),
		"solver_queries":                stats.Queries,
		"solver_time_s": map[string]float64{"z3-4.8.12": float64(stats.NanosZ3) / 1e9, "z3-5.1.0": float64(stats.NanosZN) / 1e9, "cvc5-1.0": float64(stats.NanosCV) / 1e9},
		"solver_calls":  map[string]int64{"z3-4.8.12": stats.QZ3, "z3-5.1.0": stats.QZN, "cvc5-1.0": stats.QCV},
		"solver_errors": stats.Errors,
		"encoding":      "regenerated from " + repoDir + " working tree on this run (go/packages + go/ssa, harness overlay)",
		"load_s":        l.loadS,
	}
	ev := map[string]interface{}{
		"property_id": id, "tier": tierName, "seed": seed, "level": "model_checking",
		"coverage":    cov,
		"assumptions": meta.Assumptions,
		"wall_s":      time.Since(t0).Seconds(),
		"violations":  violations,
	}
	if err := writeJSON(evPath, ev); err != nil {
		fmt.Fprintln(os.Stderr, "cannot write evidence:", err)
	}
	for _, inc := range inconclusive {
		fmt.Printf("INCONCLUSIVE property=%s reason=%s\n", id, truncate(strings.ReplaceAll(inc, "\n", " "), 900))
	}
	fmt.Printf("SUMMARY property=%s tier=%s harnesses=%d paths=%d obligations=%d discharged=%d (rewriting %d) inconclusive=%d violations=%d witnesses_validated=%d wall=%.1fs\n",
		id, tierName, len(results), states, nOblig, nDischarged, nFolded, len(inconclusive), violations, validated, time.Since(t0).Seconds())
	if violations > 0 {
		return 1
	}
	return 0
}

func keys(m map[string]bool) []string {
	out := []string{}
	for k := range m {
		out = append(out, k)
	}
	sort.Strings(out)
	return out
}

func fillHashes(l *Loaded, hs map[string]string) {
	for fn := range ssaAllFunctions(l) {
		if _, ok := hs[fn.String()]; ok {
			hs[fn.String()] = ssaHash(fn)
		}
	}
}

func leafNondets(lf *Leaf) ([]string, []*Term) {
	var names []string
	for n := range lf.Nondets {
		names = append(names, n)
	}
	sort.Strings(names)
	var ts []*Term
	for _, n := range names {
		ts = append(ts, lf.Nondets[n])
	}
	return names, ts
}

func candidateReproduced(c *candidate, r *NativeRun) bool {
	if r.AssumeOff {
		return false
	}
	switch c.kind {
	case "determinism":
		return false // decided over the set of repeated runs (detDiffer)
	case "panic":
		return r.Panic != ""
	case "known":
		for _, a := range r.Asserts {
			if a.Label == c.ob.Label && !a.OK && a.Known {
				return true
			}
		}
		return false
	}
	for _, a := range r.Asserts {
		if a.Label == c.ob.Label && !a.OK && !a.Known {
			return true
		}
	}
	// an assertion that was never reached natively because of a panic also counts
	return false
}

func readableModel(m map[string]string) map[string]string {
	out := map[string]string{}
	for k, v := range m {
		if strings.HasPrefix(v, "s:") {
			out[k] = fmt.Sprintf("%q", v[2:])
		} else {
			out[k] = v
		}
	}
	return out
}

func readableVec(v Vector) map[string]interface{} {
	out := map[string]interface{}{}
	for k, h := range v.Strings {
		b, _ := hex.DecodeString(h)
		out[k] = string(b)
	}
	for k, b := range v.Bools {
		out[k] = b
	}
	for k, i := range v.Ints {
		out[k] = i
	}
	for k, c := range v.Choices {
		out["choice:"+k] = c
	}
	return out
}

func cmdReplay(args []string) int {
	if len(args) < 1 {
		return 2
	}
	path := args[0]
	if st, err := os.Stat(path); err == nil && st.IsDir() {
		path = filepath.Join(path, "vector.json")
	}
	b, err := os.ReadFile(path)
	if err != nil {
		fmt.Fprintln(os.Stderr, err)
		return 2
	}
	var vecs []Vector
	if err := json.Unmarshal(b, &vecs); err != nil {
		fmt.Fprintln(os.Stderr, err)
		return 2
	}
	l, err := load()
	if err != nil {
		fmt.Fprintln(os.Stderr, err)
		return 2
	}
	runs, out, err := nativeRun(l, vecs, atoiOr(os.Getenv("VERIF_REPEAT"), 1))
	if err != nil {
		fmt.Fprintln(os.Stderr, err, out)
		return 2
	}
	bad := false
	for id, rs := range runs {
		for _, r := range rs {
			for _, a := range r.Asserts {
				if !a.OK {
					fmt.Printf("replay %s: assertion %q FAILED against the compiled code (harness %s)\n", id, a.Label, r.Harness)
					bad = true
				}
			}
			if r.Panic != "" {
				fmt.Printf("replay %s: PANIC %s (harness %s)\n", id, r.Panic, r.Harness)
				bad = true
			}
			for _, o := range r.Obs {
				ob, _ := hex.DecodeString(o.Hex)
				fmt.Printf("replay %s: observed %s = %q\n", id, o.Label, ob)
			}
		}
	}
	if bad {
		return 1
	}
	fmt.Println("replay: no assertion failed")
	return 0
}

func nonNil(s []string) []string {
	if s == nil {
		return []string{}
	}
	return s
}

// detFinding: harness -> id of the known finding that covers its determinism obligation (if listed open).
var detFinding = map[string]string{
	"H_C07_dict_qualkeys": "C07-dict-key-registration-order",
}

// detDiffer: two native runs of the same vector observed different values for a det: label.
func detDiffer(rs []*NativeRun) bool {
	var first map[string]string
	for _, r := range rs {
		if r.AssumeOff || r.Panic != "" {
			continue
		}
		cur := map[string]string{}
		for i, o := range r.Obs {
			if strings.HasPrefix(o.Label, "det:") {
				cur[fmt.Sprintf("%s#%d", o.Label, i)] = o.Hex
			}
		}
		if first == nil {
			first = cur
			continue
		}
		if len(cur) != len(first) {
			return true
		}
		for k, v := range cur {
			if first[k] != v {
				return true
			}
		}
	}
	return false
}

func nativeAssertFailed(r *NativeRun) string {
	for _, a := range r.Asserts {
		if !a.OK && !a.Known {
			return a.Label
		}
	}
	return ""
}
