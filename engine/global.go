package main

// Tracking of reads/writes to memory reachable from package-level variables of
// the encoded packages (used by C09).

import (
	"fmt"
	"strings"

	"golang.org/x/tools/go/ssa"
)

func (p *Path) markGlobals() {
	p.globalCells = map[*Value]string{}
	p.globalMaps = map[*Map]string{}
	seen := map[*Value]bool{}
	var walk func(v Value, name string)
	walkCell := func(c *Value, name string) {
		if c == nil || seen[c] {
			return
		}
		seen[c] = true
		p.globalCells[c] = name
		walk(*c, name)
	}
	walk = func(v Value, name string) {
		switch x := v.(type) {
		case Ptr:
			walkCell(x.p, name)
		case Struct:
			for i := range x {
				walkCell(&x[i], name)
			}
		case Array:
			for i := range x {
				walkCell(&x[i], name)
			}
		case Slice:
			full := x.data[:cap(x.data)]
			for i := range full {
				walkCell(&full[i], name)
			}
		case MapRef:
			if x.m != nil {
				if _, ok := p.globalMaps[x.m]; !ok {
					p.globalMaps[x.m] = name
					for _, e := range x.m.entries {
						walk(e.k, name)
						walk(e.v, name)
					}
				}
			}
		case Iface:
			walk(x.v, name)
		case *Closure:
			for _, e := range x.env {
				walk(e, name)
			}
		}
	}
	// every package-level variable of the encoded packages, touched by init or not
	for pk := range p.ex.pkgs {
		for _, m := range pk.Members {
			if g, ok := m.(*ssa.Global); ok {
				p.global(g)
			}
		}
	}
	for g, c := range p.globals {
		if strings.HasPrefix(g.Name(), "verif") || strings.HasPrefix(g.Name(), "init$") {
			continue // harness support state
		}
		if g.Pos().IsValid() && strings.Contains(p.ex.prog.Fset.Position(g.Pos()).Filename, "zz_verif_") {
			continue
		}
		walkCell(c, g.Name())
	}
}

func (p *Path) noteWriteCell(c *Value) {
	if !p.initDone {
		return
	}
	if n, ok := p.globalCells[c]; ok {
		p.gwrites = append(p.gwrites, fmt.Sprintf("store to memory reachable from global %s in %s", n, p.curFn()))
	}
}

func (p *Path) noteReadCell(c *Value) {}

func (p *Path) noteWrite(m *Map) {
	if !p.initDone {
		return
	}
	if n, ok := p.globalMaps[m]; ok {
		p.gwrites = append(p.gwrites, fmt.Sprintf("map update on global %s in %s", n, p.curFn()))
	}
}

func (p *Path) noteRead(m *Map) {}

func (p *Path) noteWriteSlice(s Slice) {
	if !p.initDone || len(s.data) == 0 {
		return
	}
	if n, ok := p.globalCells[&s.data[0]]; ok {
		p.gwrites = append(p.gwrites, fmt.Sprintf("in-place append into array reachable from global %s in %s", n, p.curFn()))
	}
}

func (p *Path) curFn() string {
	if len(p.stack) == 0 {
		return "?"
	}
	return p.stack[len(p.stack)-1].String()
}
