package main

// Symbolic interpreter for go/ssa. Stateless exploration: each path is executed
// from the start following a decision prefix; new decision points enqueue their
// alternatives (see explore.go).

import (
	"fmt"
	"unicode/utf8"
	"go/constant"
	"go/token"
	"go/types"
	"math/big"
	"strings"

	"golang.org/x/tools/go/ssa"
)

type progPanic struct {
	msg string
	val Value
}

type pathAbort struct {
	kind string // assume, unsupported, unwind, infeasible, steps
	msg  string
}

type frame struct {
	fn     *ssa.Function
	locals map[ssa.Value]Value
	env    []Value
	visits map[*ssa.BasicBlock]int
	defers []func()
}

func (p *Path) unsupported(format string, args ...interface{}) {
	panic(pathAbort{kind: "unsupported", msg: fmt.Sprintf(format, args...)})
}

func (p *Path) goPanic(format string, args ...interface{}) {
	panic(progPanic{msg: fmt.Sprintf(format, args...)})
}

func (p *Path) constVal(c *ssa.Const) Value {
	t := c.Type()
	if c.Value == nil {
		return zero(t)
	}
	if b, ok := t.Underlying().(*types.Basic); ok {
		switch {
		case b.Info()&types.IsBoolean != 0:
			return mkBool(constant.BoolVal(c.Value))
		case b.Info()&types.IsString != 0:
			return mkStr(constant.StringVal(c.Value))
		case b.Info()&types.IsInteger != 0:
			v := constant.ToInt(c.Value)
			bi, ok := new(big.Int).SetString(v.ExactString(), 10)
			if !ok {
				p.unsupported("integer constant %v", c.Value)
			}
			return mkBig(bi)
		case b.Info()&types.IsFloat != 0:
			f, _ := constant.Float64Val(c.Value)
			return FloatVal{kind: b.Kind(), isC: true, cf: f}
		case b.Info()&types.IsComplex != 0:
			re, _ := constant.Float64Val(constant.Real(c.Value))
			im, _ := constant.Float64Val(constant.Imag(c.Value))
			return FloatVal{kind: b.Kind(), isC: true, cc: complex(re, im)}
		}
	}
	p.unsupported("constant %v of type %v", c, t)
	return nil
}

func (p *Path) get(fr *frame, v ssa.Value) Value {
	switch x := v.(type) {
	case *ssa.Const:
		return p.constVal(x)
	case *ssa.Global:
		return Ptr{p.global(x)}
	case *ssa.Function:
		return FuncVal{x}
	case *ssa.Builtin:
		return x
	case *ssa.FreeVar:
		for i, fv := range fr.fn.FreeVars {
			if fv == x {
				return fr.env[i]
			}
		}
		panic("freevar not found")
	}
	r, ok := fr.locals[v]
	if !ok {
		panic(fmt.Sprintf("get: no value for %s (%T) in %s", v.Name(), v, fr.fn))
	}
	return r
}

func (p *Path) global(g *ssa.Global) *Value {
	if c, ok := p.globals[g]; ok {
		return c
	}
	c := new(Value)
	*c = zero(g.Type().(*types.Pointer).Elem())
	p.globals[g] = c
	if p.initDone && p.globalCells != nil && p.ex.pkgs[g.Pkg] {
		p.globalCells[c] = g.Name()
	}
	return c
}

// ---- calls

func (p *Path) callFunction(fn *ssa.Function, args []Value, env []Value) Value {
	p.depth++
	defer func() { p.depth-- }()
	if p.depth > 200 {
		p.unsupported("call depth exceeded in %s", fn)
	}
	if r, ok := p.intrinsic(fn, args); ok {
		return r
	}
	if r, ok := p.stub(fn, args); ok {
		return r
	}
	if len(p.summaries) > 0 {
		if r, ok := p.applySummary(fn, args); ok {
			return r
		}
	}
	if fn.Blocks == nil {
		p.unsupported("call to external function %s", fn)
	}
	if !p.ex.interpretable(fn) {
		p.unsupported("call to function outside the encoded packages: %s", fn)
	}
	p.ex.noteEncoded(fn)
	fr := &frame{fn: fn, locals: map[ssa.Value]Value{}, env: env, visits: map[*ssa.BasicBlock]int{}}
	for i, prm := range fn.Params {
		fr.locals[prm] = args[i]
	}
	p.stack = append(p.stack, fn)
	defer func() { p.stack = p.stack[:len(p.stack)-1] }()
	if p.pureScalar(fn, args) {
		return p.runFrameOrSummarise(fr, fn, args)
	}
	return p.runFrame(fr)
}

// pureScalar: a function of the code under test whose parameters and single result are scalars
// and whose arguments are not all constant: a candidate for automatic summarisation.
func (p *Path) pureScalar(fn *ssa.Function, args []Value) bool {
	if fn.Pkg == nil || !p.ex.pkgs[fn.Pkg] || len(fn.FreeVars) > 0 || fn.Signature.Recv() != nil {
		return false
	}
	if strings.Contains(p.ex.prog.Fset.Position(fn.Pos()).Filename, "zz_verif_") {
		return false
	}
	if fn.Signature.Results().Len() != 1 || len(args) == 0 {
		return false
	}
	if b, ok := fn.Signature.Results().At(0).Type().Underlying().(*types.Basic); !ok || b.Info()&(types.IsString|types.IsInteger|types.IsBoolean) == 0 {
		return false
	}
	allConst := true
	for _, a := range args {
		t, ok := a.(*Term)
		if bo, isB := a.(BytesOf); isB {
			t, ok = bo.s, true
		}
		if !ok {
			return false
		}
		if !t.IsConst() {
			allConst = false
		}
	}
	return !allConst
}

// runFrameOrSummarise: if the body cannot be encoded (unsupported construct) and has written
// nothing, the call becomes an uninterpreted application whose real values are obtained by
// interpreting the function on constants (sound over-approximation; counterexamples are validated).
func (p *Path) runFrameOrSummarise(fr *frame, fn *ssa.Function, args []Value) (res Value) {
	writes, depth, stack, decs := p.writes, p.depth, len(p.stack), len(p.trail)
	defer func() {
		if r := recover(); r != nil {
			pa, ok := r.(pathAbort)
			_ = decs
			if !ok || pa.kind != "unsupported" || p.writes != writes {
				panic(r)
			}
			p.depth = depth
			p.stack = p.stack[:stack]
			var ts []*Term
			for _, a := range args {
				if bo, isB := a.(BytesOf); isB {
					ts = append(ts, bo.s)
				} else {
					ts = append(ts, a.(*Term))
				}
			}
			b := fn.Signature.Results().At(0).Type().Underlying().(*types.Basic)
			if strings.Contains(pa.msg, " os.") || strings.Contains(pa.msg, "(*os.") || strings.Contains(pa.msg, " io.") || strings.Contains(pa.msg, "make([]byte)") {
				// the function consults the environment (file system): its result is a free value of its type
				v := p.freshVar("env_"+fn.Name(), sortOfBasic(b))
				p.registerNondet(fmt.Sprintf("env:%s#%d", fn.Name(), p.fresh), v)
				p.effects = append(p.effects, "env:"+fn.Name())
				p.effectArgs = append(p.effectArgs, ts)
				p.effectFail = append(p.effectFail, tFalse)
				res = v
				return
			}
			registerAuto(fn)
			res = mkUF("auto:"+fn.Name(), sortOfBasic(b), ts...)
		}
	}()
	return p.runFrame(fr)
}

func (p *Path) callValue(fv Value, args []Value) Value {
	switch f := fv.(type) {
	case FuncVal:
		if f.fn == nil {
			p.goPanic("call of nil func")
		}
		return p.callFunction(f.fn, args, nil)
	case *Closure:
		return p.callFunction(f.fn, args, f.env)
	case *ssa.Builtin:
		return p.callBuiltin(f, args)
	}
	p.unsupported("call of %T", fv)
	return nil
}

func (p *Path) doCall(fr *frame, c *ssa.CallCommon) Value {
	var args []Value
	if c.IsInvoke() {
		recv := p.get(fr, c.Value)
		ifc, ok := recv.(Iface)
		if !ok {
			p.unsupported("invoke on %T", recv)
		}
		if ifc.t == nil {
			p.goPanic("nil interface method call: %s", c.Method.Name())
		}
		var fn *ssa.Function
		if eo, ok := ifc.v.(*ErrObj); ok {
			if c.Method.Name() == "Error" {
				return eo.msg
			}
			p.unsupported("method %s on stub error", c.Method.Name())
		}
		fn = p.ex.prog.LookupMethod(ifc.t, c.Method.Pkg(), c.Method.Name())
		if fn == nil {
			p.unsupported("method %s not found on %v", c.Method.Name(), ifc.t)
		}
		args = append(args, ifc.v)
		for _, a := range c.Args {
			args = append(args, p.get(fr, a))
		}
		return p.callFunction(fn, args, nil)
	}
	for _, a := range c.Args {
		args = append(args, p.get(fr, a))
	}
	if sc := c.StaticCallee(); sc != nil {
		var env []Value
		if mc, ok := c.Value.(*ssa.MakeClosure); ok {
			cl := p.get(fr, mc).(*Closure)
			env = cl.env
		}
		return p.callFunction(sc, args, env)
	}
	return p.callValue(p.get(fr, c.Value), args)
}

func (p *Path) callBuiltin(b *ssa.Builtin, args []Value) Value {
	switch b.Name() {
	case "len":
		switch x := args[0].(type) {
		case *Term:
			return mkLen(x)
		case Slice:
			return mkInt(int64(len(x.data)))
		case BytesOf:
			return mkLen(x.s)
		case MapRef:
			if x.m == nil {
				return mkInt(0)
			}
			return mkInt(int64(len(x.m.entries)))
		case Array:
			return mkInt(int64(len(x)))
		case Ptr:
			if a, ok := (*x.p).(Array); ok {
				return mkInt(int64(len(a)))
			}
		}
		p.unsupported("len of %T", args[0])
	case "cap":
		switch x := args[0].(type) {
		case Slice:
			return mkInt(int64(cap(x.data)))
		}
		p.unsupported("cap of %T", args[0])
	case "append":
		return p.doAppend(args[0], args[1])
	case "copy":
		dst, ok1 := args[0].(Slice)
		src, ok2 := args[1].(Slice)
		if !ok1 || !ok2 {
			p.unsupported("copy of %T,%T", args[0], args[1])
		}
		n := copy(dst.data, src.data)
		return mkInt(int64(n))
	case "delete":
		m := args[0].(MapRef)
		if m.m == nil {
			return nil
		}
		e := p.mapFind(m.m, args[1])
		if e != nil {
			p.noteWrite(m.m)
			var ne []*MapEntry
			for _, x := range m.m.entries {
				if x != e {
					ne = append(ne, x)
				}
			}
			m.m.entries = ne
		}
		return nil
	case "print", "println":
		return nil
	case "recover":
		return Iface{}
	case "real", "imag":
		f, ok := args[0].(FloatVal)
		if !ok {
			p.unsupported("%s of %T", b.Name(), args[0])
		}
		k := types.Float64
		if f.kind == types.Complex64 {
			k = types.Float32
		}
		if f.isC {
			if b.Name() == "real" {
				return FloatVal{kind: k, isC: true, cf: real(f.cc)}
			}
			return FloatVal{kind: k, isC: true, cf: imag(f.cc)}
		}
		if b.Name() == "real" {
			return FloatVal{kind: k, bits: f.bits}
		}
		return FloatVal{kind: k, bits: f.bits2}
	case "min", "max":
		p.unsupported("builtin %s", b.Name())
	}
	p.unsupported("builtin %s", b.Name())
	return nil
}

func (p *Path) doAppend(a0, a1 Value) Value {
	if bo, ok := a0.(BytesOf); ok {
		switch x := a1.(type) {
		case BytesOf:
			return BytesOf{s: mkConcat(bo.s, x.s)}
		case *Term:
			return BytesOf{s: mkConcat(bo.s, x)}
		case Slice:
			parts := []*Term{bo.s}
			for _, e := range x.data {
				t, ok := e.(*Term)
				if !ok || t.Sort != SInt {
					p.unsupported("append to []byte of a non-byte value")
				}
				parts = append(parts, mkFromCode(t))
			}
			return BytesOf{s: mkConcat(parts...)}
		}
		p.unsupported("append to []byte of %T", a1)
	}
	s, ok := a0.(Slice)
	if !ok {
		p.unsupported("append to %T", a0)
	}
	if str, isStr := a1.(*Term); isStr && str.Sort == SStr {
		// append(b, "text"...) on a byte slice built from an array: continue as a string view
		if t, ok := byteSliceTerm(s); ok {
			return BytesOf{s: mkConcat(t, str)}
		}
	}
	var xs []Value
	switch x := a1.(type) {
	case Slice:
		xs = x.data
	default:
		p.unsupported("append of %T", a1)
	}
	if len(xs) == 0 {
		return s
	}
	n := len(s.data)
	if n+len(xs) <= cap(s.data) {
		// in place: aliasing with every other header over the same array is real
		d := s.data[:n+len(xs)]
		for i, x := range xs {
			d[n+i] = copyVal(x)
		}
		p.noteWriteSlice(s)
		return Slice{data: d}
	}
	need := n + len(xs)
	newCap := need
	if p.capFork && !p.inHarnessCode() {
		p.ambient = true
		switch p.decide(2, "append-capacity", nil) {
		case 0:
			newCap = need
		case 1:
			newCap = need + 1 + need/2
		}
	} else {
		newCap = 2 * need
	}
	d := make([]Value, need, newCap)
	for i := 0; i < n; i++ {
		d[i] = copyVal(s.data[i])
	}
	for i, x := range xs {
		d[n+i] = copyVal(x)
	}
	// the spare capacity holds zero values of an unknown type; fill lazily with nil
	return Slice{data: d}
}

// ---- frames

func (p *Path) runFrame(fr *frame) Value {
	var prev *ssa.BasicBlock
	block := fr.fn.Blocks[0]
	for {
		fr.visits[block]++
		if fr.visits[block] > p.unwind+1 && !p.inInit {
			if p.unwindAssume {
				panic(pathAbort{kind: "assume", msg: "loop bound (stated as an assumption of the claim)"})
			}
			panic(pathAbort{kind: "unwind", msg: fmt.Sprintf("loop at %s block %d exceeds unwinding limit %d", fr.fn, block.Index, p.unwind)})
		}
		var next *ssa.BasicBlock
		for _, ins := range block.Instrs {
			p.steps++
			if p.steps > p.ex.maxSteps {
				panic(pathAbort{kind: "steps", msg: "step limit"})
			}
			switch in := ins.(type) {
			case *ssa.Phi:
				for i, pred := range block.Preds {
					if pred == prev {
						fr.locals[in] = p.get(fr, in.Edges[i])
						break
					}
				}
			case *ssa.If:
				c := p.get(fr, in.Cond).(*Term)
				if p.branch(c, "if@"+fr.fn.Name()) {
					next = block.Succs[0]
				} else {
					next = block.Succs[1]
				}
			case *ssa.Jump:
				next = block.Succs[0]
			case *ssa.Return:
				p.runDefers(fr)
				switch len(in.Results) {
				case 0:
					return nil
				case 1:
					return p.get(fr, in.Results[0])
				}
				t := make(Tuple, len(in.Results))
				for i, r := range in.Results {
					t[i] = p.get(fr, r)
				}
				return t
			case *ssa.Panic:
				v := p.get(fr, in.X)
				msg := "panic"
				if ifc, ok := v.(Iface); ok {
					if t, ok := ifc.v.(*Term); ok {
						msg = "panic: " + t.String()
					} else if eo, ok := ifc.v.(*ErrObj); ok {
						msg = "panic: error " + eo.msg.String()
					}
				}
				panic(progPanic{msg: msg, val: v})
			case *ssa.RunDefers:
				p.runDefers(fr)
			case *ssa.Defer:
				// the call's function value and arguments are evaluated now, the call happens at RunDefers
				c := in.Call
				if c.IsInvoke() {
					p.unsupported("defer of an interface method call in %s", fr.fn)
				}
				var dargs []Value
				for _, a := range c.Args {
					dargs = append(dargs, p.get(fr, a))
				}
				if sc := c.StaticCallee(); sc != nil {
					var env []Value
					if mc, ok := c.Value.(*ssa.MakeClosure); ok {
						env = p.get(fr, mc).(*Closure).env
					}
					fr.defers = append(fr.defers, func() { p.callFunction(sc, dargs, env) })
				} else {
					fv := p.get(fr, c.Value)
					fr.defers = append(fr.defers, func() { p.callValue(fv, dargs) })
				}
			case *ssa.Go:
				p.unsupported("go statement in %s", fr.fn)
			case *ssa.Store:
				ptr := p.get(fr, in.Addr).(Ptr)
				if ptr.p == nil {
					p.goPanic("nil pointer dereference (store) in %s", fr.fn)
				}
				p.noteWriteCell(ptr.p)
				p.writes++
				*ptr.p = copyVal(p.get(fr, in.Val))
			case *ssa.MapUpdate:
				m := p.get(fr, in.Map).(MapRef)
				if m.m == nil {
					p.goPanic("assignment to entry in nil map")
				}
				p.mapUpdate(m.m, p.get(fr, in.Key), copyVal(p.get(fr, in.Value)))
			case *ssa.DebugRef:
			case ssa.Value:
				fr.locals[in] = p.eval(fr, in)
			default:
				p.unsupported("instruction %T in %s", ins, fr.fn)
			}
		}
		if next == nil {
			panic("block fell through: " + fr.fn.String())
		}
		prev = block
		block = next
	}
}

func (p *Path) runDefers(fr *frame) {
	for i := len(fr.defers) - 1; i >= 0; i-- {
		fr.defers[i]()
	}
	fr.defers = nil
}

func (p *Path) eval(fr *frame, ins ssa.Value) Value {
	switch in := ins.(type) {
	case *ssa.Alloc:
		c := new(Value)
		*c = zero(in.Type().(*types.Pointer).Elem())
		p.allocs++
		return Ptr{c}
	case *ssa.Call:
		return p.doCall(fr, &in.Call)
	case *ssa.BinOp:
		return p.binop(in.Op, p.get(fr, in.X), p.get(fr, in.Y), in.X.Type())
	case *ssa.UnOp:
		x := p.get(fr, in.X)
		switch in.Op {
		case token.MUL:
			ptr := x.(Ptr)
			if ptr.p == nil {
				p.goPanic("nil pointer dereference in %s", fr.fn)
			}
			p.noteReadCell(ptr.p)
			return copyVal(*ptr.p)
		case token.NOT:
			return mkNot(x.(*Term))
		case token.SUB:
			if t, ok := x.(*Term); ok {
				return mkNeg(t)
			}
			if f, ok := x.(FloatVal); ok && f.isC {
				f.cf = -f.cf
				f.cc = -f.cc
				return f
			}
		}
		p.unsupported("unary %v on %T", in.Op, x)
	case *ssa.ChangeType:
		return p.get(fr, in.X)
	case *ssa.ChangeInterface:
		return p.get(fr, in.X)
	case *ssa.MakeInterface:
		return Iface{t: in.X.Type(), v: copyVal(p.get(fr, in.X))}
	case *ssa.Convert:
		return p.convert(p.get(fr, in.X), in.X.Type(), in.Type())
	case *ssa.Extract:
		return p.get(fr, in.Tuple).(Tuple)[in.Index]
	case *ssa.FieldAddr:
		ptr := p.get(fr, in.X).(Ptr)
		if ptr.p == nil {
			p.goPanic("nil pointer dereference (field %d) in %s", in.Field, fr.fn)
		}
		s := (*ptr.p).(Struct)
		return Ptr{&s[in.Field]}
	case *ssa.Field:
		return copyVal(p.get(fr, in.X).(Struct)[in.Field])
	case *ssa.IndexAddr:
		x := p.get(fr, in.X)
		if bo, ok := x.(BytesOf); ok {
			// read-only view of one byte of a string-backed []byte
			i := p.get(fr, in.Index).(*Term)
			inb := mkAnd(mkLe(mkInt(0), i), mkLt(i, mkLen(bo.s)))
			if !p.branch(inb, "byte-index-in-range") {
				p.goPanic("index out of range")
			}
			c := new(Value)
			if bo.s.IsConst() && i.IsConst() {
				*c = mkInt(int64(bo.s.S[i.Int64()]))
			} else {
				*c = mkApp("str.to_code", SInt, mkSubstr(bo.s, i, mkInt(1)))
			}
			return Ptr{c}
		}
		idx := p.concreteInt(p.get(fr, in.Index), "index")
		switch xx := x.(type) {
		case Slice:
			if idx < 0 || idx >= int64(len(xx.data)) {
				p.goPanic("index out of range [%d] with length %d", idx, len(xx.data))
			}
			return Ptr{&xx.data[idx]}
		case Ptr:
			if xx.p == nil {
				p.goPanic("nil pointer dereference (array index)")
			}
			a := (*xx.p).(Array)
			if idx < 0 || idx >= int64(len(a)) {
				p.goPanic("index out of range [%d] with length %d", idx, len(a))
			}
			return Ptr{&a[idx]}
		}
		p.unsupported("IndexAddr on %T", x)
	case *ssa.Index:
		x := p.get(fr, in.X)
		if xs, ok := x.(*Term); ok && xs.Sort == SStr {
			return p.stringIndex(xs, p.get(fr, in.Index).(*Term))
		}
		idx := p.concreteInt(p.get(fr, in.Index), "index")
		if a, ok := x.(Array); ok {
			if idx < 0 || idx >= int64(len(a)) {
				p.goPanic("index out of range")
			}
			return copyVal(a[idx])
		}
		p.unsupported("Index on %T", x)
	case *ssa.Lookup:
		x := p.get(fr, in.X)
		switch xx := x.(type) {
		case MapRef:
			k := p.get(fr, in.Index)
			var v Value
			found := false
			if xx.m != nil {
				v, found = p.mapLookup(xx.m, k)
			}
			if !found {
				v = zero(in.X.Type().Underlying().(*types.Map).Elem())
			}
			if in.CommaOk {
				return Tuple{v, mkBool(found)}
			}
			return v
		case *Term:
			return p.stringIndex(xx, p.get(fr, in.Index).(*Term))
		}
		p.unsupported("Lookup on %T", x)
	case *ssa.Slice:
		return p.slice(fr, in)
	case *ssa.MakeSlice:
		n := p.concreteInt(p.get(fr, in.Len), "make len")
		c := p.concreteInt(p.get(fr, in.Cap), "make cap")
		et := in.Type().Underlying().(*types.Slice).Elem()
		if b, ok := et.Underlying().(*types.Basic); ok && b.Kind() == types.Uint8 {
			// a byte slice is modelled as an immutable string view: fine for make+append, stores are unsupported
			return BytesOf{s: mkStr(strings.Repeat("\x00", int(n)))}
		}
		d := make([]Value, n, c)
		full := d[:c]
		for i := range full {
			full[i] = zero(et)
		}
		return Slice{data: d}
	case *ssa.MakeMap:
		mt := in.Type().Underlying().(*types.Map)
		p.mapSerial++
		return MapRef{&Map{kt: mt.Key(), vt: mt.Elem(), serial: p.mapSerial}}
	case *ssa.MakeClosure:
		fn := in.Fn.(*ssa.Function)
		env := make([]Value, len(in.Bindings))
		for i, b := range in.Bindings {
			env[i] = p.get(fr, b)
		}
		return &Closure{fn: fn, env: env}
	case *ssa.Range:
		x := p.get(fr, in.X)
		switch xx := x.(type) {
		case MapRef:
			it := &MapIter{done: map[*MapEntry]bool{}}
			if xx.m != nil {
				it.m = xx.m
				it.order = append([]*MapEntry{}, xx.m.entries...)
				p.noteRead(xx.m)
			}
			return it
		}
		if t, ok := x.(*Term); ok && t.Sort == SStr {
			if !t.IsConst() {
				p.unsupported("range over a symbolic string")
			}
			return &StrIter{s: t.S}
		}
		p.unsupported("range over %T", x)
	case *ssa.Next:
		if si, ok := p.get(fr, in.Iter).(*StrIter); ok {
			if si.pos >= len(si.s) {
				return Tuple{tFalse, mkInt(0), mkInt(0)}
			}
			r, n := utf8.DecodeRuneInString(si.s[si.pos:])
			i := si.pos
			si.pos += n
			return Tuple{tTrue, mkInt(int64(i)), mkInt(int64(r))}
		}
		it := p.get(fr, in.Iter).(*MapIter)
		return p.mapNext(it, in)
	case *ssa.TypeAssert:
		return p.typeAssert(p.get(fr, in.X), in)
	case *ssa.Phi:
		panic("phi handled in runFrame")
	}
	p.unsupported("instruction %T (%s) in %s", ins, ins, fr.fn)
	return nil
}

func (p *Path) concreteInt(v Value, what string) int64 {
	t, ok := v.(*Term)
	if !ok || !t.IsConst() {
		p.unsupported("symbolic %s: %v", what, v)
	}
	return t.Int64()
}

func (p *Path) typeAssert(x Value, in *ssa.TypeAssert) Value {
	ifc, ok := x.(Iface)
	if !ok {
		p.unsupported("TypeAssert on %T", x)
	}
	okv := false
	var res Value
	if ifc.t != nil {
		if it, isI := in.AssertedType.Underlying().(*types.Interface); isI {
			if types.Implements(ifc.t, it) {
				okv = true
				res = ifc
			}
		} else if types.Identical(ifc.t, in.AssertedType) {
			okv = true
			res = copyVal(ifc.v)
		}
	}
	if in.CommaOk {
		if !okv {
			res = zero(in.AssertedType)
		}
		return Tuple{res, mkBool(okv)}
	}
	if !okv {
		if ifc.t == nil {
			p.goPanic("interface conversion: interface is nil, not %v", in.AssertedType)
		}
		p.goPanic("interface conversion: interface is %v, not %v", ifc.t, in.AssertedType)
	}
	return res
}

func (p *Path) slice(fr *frame, in *ssa.Slice) Value {
	x := p.get(fr, in.X)
	var lo, hi *Term
	if in.Low != nil {
		lo = p.get(fr, in.Low).(*Term)
	}
	if in.High != nil {
		hi = p.get(fr, in.High).(*Term)
	}
	strSlice := func(s *Term) *Term {
		l := lo
		if l == nil {
			l = mkInt(0)
		}
		h := hi
		if h == nil {
			h = mkLen(s)
		}
		inb := mkAnd(mkLe(mkInt(0), l), mkLe(l, h), mkLe(h, mkLen(s)))
		if !p.branch(inb, "slice-bounds") {
			p.goPanic("slice bounds out of range")
		}
		return p.substr(s, l, mkSub(h, l))
	}
	switch xx := x.(type) {
	case *Term:
		return strSlice(xx)
	case BytesOf:
		return BytesOf{s: strSlice(xx.s)}
	case Slice:
		l, h, m := int64(0), int64(len(xx.data)), int64(cap(xx.data))
		if lo != nil {
			l = p.concreteInt(lo, "slice low")
		}
		if hi != nil {
			h = p.concreteInt(hi, "slice high")
		}
		if in.Max != nil {
			m = p.concreteInt(p.get(fr, in.Max), "slice max")
		}
		if l < 0 || l > h || h > m || m > int64(cap(xx.data)) {
			p.goPanic("slice bounds out of range [%d:%d:%d] cap %d", l, h, m, cap(xx.data))
		}
		if xx.nilS && l == 0 && h == 0 {
			return xx
		}
		return Slice{data: xx.data[l:h:m]}
	case Ptr:
		if xx.p == nil {
			p.goPanic("nil pointer dereference (slice of array)")
		}
		a := (*xx.p).(Array)
		l, h, m := int64(0), int64(len(a)), int64(len(a))
		if lo != nil {
			l = p.concreteInt(lo, "slice low")
		}
		if hi != nil {
			h = p.concreteInt(hi, "slice high")
		}
		if in.Max != nil {
			m = p.concreteInt(p.get(fr, in.Max), "slice max")
		}
		if l < 0 || l > h || h > m || m > int64(len(a)) {
			p.goPanic("slice bounds out of range")
		}
		return Slice{data: []Value(a)[l:h:m]}
	}
	p.unsupported("Slice on %T", x)
	return nil
}

// substr with the path's recorded decompositions (s = prefix ++ suffix).
func (p *Path) substr(s, off, n *Term) *Term {
	for _, d := range p.decomp[s] {
		// s = d.a ++ d.b
		la := mkLen(d.a)
		if d.alen >= 0 {
			la = mkInt(d.alen)
		}
		if off == la && n == mkSub(mkLen(s), la) {
			return d.b
		}
		if off.IsConst() && off.Int64() == 0 && n == la {
			return d.a
		}
		if off.IsConst() && off.Int64() == 0 && mkSub(mkLen(s), n) == mkLen(d.b) {
			return d.a
		}
	}
	return mkSubstr(s, off, n)
}

func (p *Path) convert(x Value, from, to types.Type) Value {
	fu, tu := from.Underlying(), to.Underlying()
	// string <-> []byte
	if ts, ok := tu.(*types.Slice); ok {
		if b, ok := ts.Elem().Underlying().(*types.Basic); ok && b.Kind() == types.Uint8 {
			if s, ok := x.(*Term); ok && s.Sort == SStr {
				return BytesOf{s: s}
			}
		}
		p.unsupported("conversion %v -> %v", from, to)
	}
	if tb, ok := tu.(*types.Basic); ok {
		if tb.Info()&types.IsString != 0 {
			switch xx := x.(type) {
			case Slice:
				if t, ok := byteSliceTerm(xx); ok {
					return t
				}
			case BytesOf:
				return xx.s
			case *Term:
				if xx.Sort == SStr {
					return xx
				}
				if xx.IsConst() {
					return mkStr(string(rune(xx.Int64())))
				}
				// string(rune) for an ASCII rune
				p.unsupported("string(symbolic rune)")
			}
		}
		if tb.Info()&types.IsInteger != 0 {
			if t, ok := x.(*Term); ok && t.Sort == SInt {
				return p.intConvert(t, tb)
			}
			if f, ok := x.(FloatVal); ok && f.isC {
				return mkInt(int64(f.cf))
			}
		}
		if tb.Info()&(types.IsFloat|types.IsComplex) != 0 {
			switch xx := x.(type) {
			case FloatVal:
				if fb, ok := fu.(*types.Basic); ok && fb.Kind() == tb.Kind() {
					return xx
				}
				if xx.isC {
					switch tb.Kind() {
					case types.Float32:
						return FloatVal{kind: types.Float32, isC: true, cf: float64(float32(xx.cf))}
					case types.Float64:
						return FloatVal{kind: types.Float64, isC: true, cf: xx.cf}
					}
				}
			case *Term:
				if xx.IsConst() {
					f, _ := new(big.Float).SetInt(xx.I).Float64()
					return FloatVal{kind: tb.Kind(), isC: true, cf: f}
				}
			}
		}
	}
	if _, ok := tu.(*types.Pointer); ok {
		return x
	}
	p.unsupported("conversion %v -> %v (%T)", from, to, x)
	return nil
}

func intRange(b *types.Basic) (lo, hi *big.Int) {
	bits := map[types.BasicKind]int{types.Int8: 8, types.Int16: 16, types.Int32: 32, types.Int64: 64, types.Int: 64,
		types.Uint8: 8, types.Uint16: 16, types.Uint32: 32, types.Uint64: 64, types.Uint: 64, types.Uintptr: 64}
	n, ok := bits[b.Kind()]
	if !ok {
		n = 64
	}
	one := big.NewInt(1)
	if b.Info()&types.IsUnsigned != 0 {
		return big.NewInt(0), new(big.Int).Sub(new(big.Int).Lsh(one, uint(n)), one)
	}
	h := new(big.Int).Lsh(one, uint(n-1))
	return new(big.Int).Neg(h), new(big.Int).Sub(h, one)
}

func (p *Path) intConvert(t *Term, to *types.Basic) *Term {
	lo, hi := intRange(to)
	if t.IsConst() {
		if t.I.Cmp(lo) >= 0 && t.I.Cmp(hi) <= 0 {
			return t
		}
		// wrap
		m := new(big.Int).Add(new(big.Int).Sub(hi, lo), big.NewInt(1))
		r := new(big.Int).Sub(t.I, lo)
		r.Mod(r, m)
		r.Add(r, lo)
		return mkBig(r)
	}
	if !rangeWithin(t, lo, hi) {
		p.rangeOblig = append(p.rangeOblig, mkAnd(mkLe(mkBig(lo), t), mkLe(t, mkBig(hi))))
	}
	return t
}

func (p *Path) binop(op token.Token, x, y Value, xt types.Type) Value {
	switch op {
	case token.EQL:
		return p.eqValue(x, y)
	case token.NEQ:
		return mkNot(p.eqValue(x, y))
	}
	if fa, isF := x.(FloatVal); isF {
		if fb, isF2 := y.(FloatVal); isF2 {
			if r, ok := p.floatBinop(op, fa, fb); ok {
				return r
			}
		}
	}
	a, ok1 := x.(*Term)
	b, ok2 := y.(*Term)
	if !ok1 || !ok2 {
		p.unsupported("binop %v on %T,%T", op, x, y)
	}
	if a.Sort == SStr {
		switch op {
		case token.ADD:
			return mkConcat(a, b)
		case token.LSS:
			return mkStrLt(a, b)
		case token.LEQ:
			return mkStrLe(a, b)
		case token.GTR:
			return mkStrLt(b, a)
		case token.GEQ:
			return mkStrLe(b, a)
		}
	}
	if a.Sort == SInt {
		var r *Term
		switch op {
		case token.ADD:
			r = mkAdd(a, b)
		case token.SUB:
			r = mkSub(a, b)
		case token.MUL:
			r = mkMul(a, b)
		case token.QUO:
			if b.IsConst() && b.I.Sign() == 0 {
				p.goPanic("integer divide by zero")
			}
			r = mkDiv(a, b)
			if !r.IsConst() {
				// SMT div is floor-like for negatives; require non-negative operands
				p.rangeOblig = append(p.rangeOblig, mkAnd(mkLe(mkInt(0), a), mkLt(mkInt(0), b)))
			}
		case token.REM:
			if b.IsConst() && b.I.Sign() == 0 {
				p.goPanic("integer divide by zero")
			}
			r = mkMod(a, b)
			if !r.IsConst() {
				p.rangeOblig = append(p.rangeOblig, mkAnd(mkLe(mkInt(0), a), mkLt(mkInt(0), b)))
			}
		case token.LSS:
			return mkLt(a, b)
		case token.LEQ:
			return mkLe(a, b)
		case token.GTR:
			return mkLt(b, a)
		case token.GEQ:
			return mkLe(b, a)
		case token.AND, token.OR, token.XOR, token.SHL, token.SHR, token.AND_NOT:
			if a.IsConst() && b.IsConst() {
				z := new(big.Int)
				switch op {
				case token.AND:
					z.And(a.I, b.I)
				case token.OR:
					z.Or(a.I, b.I)
				case token.XOR:
					z.Xor(a.I, b.I)
				case token.SHL:
					z.Lsh(a.I, uint(b.I.Int64()))
				case token.SHR:
					z.Rsh(a.I, uint(b.I.Int64()))
				case token.AND_NOT:
					z.AndNot(a.I, b.I)
				}
				r = mkBig(z)
			} else if b.IsConst() && b.I.IsInt64() && (op == token.SHR || op == token.SHL) && b.Int64() >= 0 && b.Int64() < 62 {
				pow := mkBig(new(big.Int).Lsh(big.NewInt(1), uint(b.Int64())))
				if op == token.SHR {
					r = mkDiv(a, pow)
				} else {
					r = mkMul(a, pow)
				}
				p.rangeOblig = append(p.rangeOblig, mkLe(mkInt(0), a))
			} else if op == token.AND && b.IsConst() && isLowMask(b.I) {
				r = mkMod(a, mkBig(new(big.Int).Add(b.I, big.NewInt(1))))
				p.rangeOblig = append(p.rangeOblig, mkLe(mkInt(0), a))
			} else if op == token.AND && a.IsConst() && isLowMask(a.I) {
				r = mkMod(b, mkBig(new(big.Int).Add(a.I, big.NewInt(1))))
				p.rangeOblig = append(p.rangeOblig, mkLe(mkInt(0), b))
			} else {
				p.unsupported("symbolic bit operation %v", op)
			}
		}
		if r != nil {
			if tb, ok := xt.Underlying().(*types.Basic); ok {
				if r.IsConst() {
					return p.intConvert(r, tb)
				}
				lo, hi := intRange(tb)
				if !rangeWithin(r, lo, hi) {
					p.rangeOblig = append(p.rangeOblig, mkAnd(mkLe(mkBig(lo), r), mkLe(r, mkBig(hi))))
				}
			}
			return r
		}
	}
	if a.Sort == SBool {
		switch op {
		case token.AND:
			return mkAnd(a, b)
		case token.OR:
			return mkOr(a, b)
		}
	}
	p.unsupported("binop %v on %v terms", op, a.Sort)
	return nil
}

func (p *Path) eqValue(x, y Value) *Term {
	switch a := x.(type) {
	case *Term:
		b, ok := y.(*Term)
		if !ok {
			p.unsupported("== between %T and %T", x, y)
		}
		if r := byteAtEq(a, b); r != nil {
			return r
		}
		if r := byteAtEq(b, a); r != nil {
			return r
		}
		return mkEq(a, b)
	case Ptr:
		b, ok := y.(Ptr)
		if !ok {
			p.unsupported("== between %T and %T", x, y)
		}
		return mkBool(a.p == b.p)
	case Iface:
		b, ok := y.(Iface)
		if !ok {
			p.unsupported("== between %T and %T", x, y)
		}
		if a.t == nil || b.t == nil {
			return mkBool(a.t == nil && b.t == nil)
		}
		if !types.Identical(a.t, b.t) {
			return tFalse
		}
		if !types.Comparable(a.t) {
			p.goPanic("runtime error: comparing uncomparable type %v", a.t)
		}
		return p.eqValue(a.v, b.v)
	case Struct:
		b := y.(Struct)
		var cs []*Term
		for i := range a {
			cs = append(cs, p.eqValue(a[i], b[i]))
		}
		return mkAnd(cs...)
	case Array:
		b := y.(Array)
		var cs []*Term
		for i := range a {
			cs = append(cs, p.eqValue(a[i], b[i]))
		}
		return mkAnd(cs...)
	case MapRef:
		b := y.(MapRef)
		return mkBool(a.m == b.m)
	case *ErrObj:
		b, ok := y.(*ErrObj)
		return mkBool(ok && a == b)
	case FuncVal:
		b, ok := y.(FuncVal)
		if ok && (a.fn == nil || b.fn == nil) {
			return mkBool(a.fn == b.fn)
		}
		if _, isC := y.(*Closure); isC && a.fn == nil {
			return tFalse
		}
	case *Closure:
		if b, ok := y.(FuncVal); ok && b.fn == nil {
			return tFalse
		}
	case FloatVal:
		b := y.(FloatVal)
		if a.isC && b.isC {
			return mkBool(a.cf == b.cf && a.cc == b.cc)
		}
		if a.bits2 == nil && b.bits2 == nil {
			if r, ok := p.floatBinop(token.EQL, a, b); ok {
				return r.(*Term)
			}
		}
		if !a.isC && !b.isC {
			return mkEq(a.bits, b.bits)
		}
	case Slice:
		if b, ok := y.(Slice); ok && (a.nilS || b.nilS) {
			return mkBool(a.nilS && b.nilS)
		}
	case BytesOf:
		if b, ok := y.(BytesOf); ok && (a.nilS || b.nilS) {
			return mkBool(a.nilS == b.nilS)
		}
	}
	p.unsupported("== on %T", x)
	return nil
}

func typeString(t types.Type) string {
	return types.TypeString(t, func(pk *types.Package) string { return pk.Name() })
}

func fnKey(fn *ssa.Function) string {
	s := fn.String()
	return strings.TrimSpace(s)
}

// inHarnessCode: the innermost function is part of the harness overlay, not of the code under test.
func (p *Path) inHarnessCode() bool {
	if len(p.stack) == 0 {
		return true
	}
	fn := p.stack[len(p.stack)-1]
	for fn.Parent() != nil {
		fn = fn.Parent()
	}
	if fn.Pos().IsValid() {
		name := p.ex.prog.Fset.Position(fn.Pos()).Filename
		return strings.Contains(name, "zz_verif_")
	}
	return false
}

// stringIndex: s[i] on a string (a byte as an Int), with the bounds check as a branch.
func (p *Path) stringIndex(s, i *Term) Value {
	inb := mkAnd(mkLe(mkInt(0), i), mkLt(i, mkLen(s)))
	if !p.branch(inb, "string-index-in-range") {
		p.goPanic("string index out of range")
	}
	if s.IsConst() && i.IsConst() {
		return mkInt(int64(s.S[i.Int64()]))
	}
	return mkApp("str.to_code", SInt, mkSubstr(s, i, mkInt(1)))
}

// byteAtEq: code(s[i]) == c for the first or last byte of s is a prefix/suffix test
// (the index was already checked to be in range), which matches how library calls are encoded.
func byteAtEq(a, c *Term) *Term {
	if a.Op != "str.to_code" || !c.IsConst() || c.Sort != SInt || !c.I.IsInt64() || c.Int64() < 0 || c.Int64() > 255 {
		return nil
	}
	sub := a.Args[0]
	if sub.Op != "str.substr" || !sub.Args[2].IsConst() || sub.Args[2].Int64() != 1 {
		return nil
	}
	s, off := sub.Args[0], sub.Args[1]
	ch := mkStr(string([]byte{byte(c.Int64())}))
	if off.IsConst() && off.Int64() == 0 {
		return mkPrefixOf(ch, s)
	}
	if off == mkSub(mkLen(s), mkInt(1)) {
		return mkSuffixOf(ch, s)
	}
	return nil
}

// isLowMask: m = 2^k - 1
func isLowMask(m *big.Int) bool {
	if m.Sign() <= 0 {
		return false
	}
	n := new(big.Int).Add(m, big.NewInt(1))
	return new(big.Int).And(n, m).Sign() == 0
}
