package main

// A small regular-expression AST over bytes with an SMT-LIB printer, a parser for
// the syntax used by harness intrinsics (verifMatch) and a native matcher
// (through Go's regexp on a Latin-1 view of the byte string).

import (
	"fmt"
	"regexp"
	"strings"
	"sync"
)

type Re struct {
	K      string // lit, range, union, seq, star, plus, opt, all, comp
	S      string
	Lo, Hi byte
	Sub    []*Re
	key    string
	goRe   *regexp.Regexp
	once   sync.Once
}

func reLit(s string) *Re        { return &Re{K: "lit", S: s} }
func reRange(lo, hi byte) *Re   { return &Re{K: "range", Lo: lo, Hi: hi} }
func reUnion(s ...*Re) *Re      { if len(s) == 1 { return s[0] }; return &Re{K: "union", Sub: s} }
func reSeq(s ...*Re) *Re        { if len(s) == 1 { return s[0] }; return &Re{K: "seq", Sub: s} }
func reStar(r *Re) *Re          { return &Re{K: "star", Sub: []*Re{r}} }
func rePlus(r *Re) *Re          { return &Re{K: "plus", Sub: []*Re{r}} }
func reOpt(r *Re) *Re           { return &Re{K: "opt", Sub: []*Re{r}} }
func reAll() *Re                { return reStar(reRange(0, 255)) }
func reAnyByte() *Re            { return reRange(0, 255) }

func (r *Re) Key() string {
	if r.key == "" {
		r.key = r.SMT()
	}
	return r.key
}

func smtChar(b byte) string { return smtStringLit(string([]byte{b})) }

func (r *Re) SMT() string {
	switch r.K {
	case "lit":
		return "(str.to_re " + smtStringLit(r.S) + ")"
	case "range":
		if r.Lo == r.Hi {
			return "(str.to_re " + smtChar(r.Lo) + ")"
		}
		return "(re.range " + smtChar(r.Lo) + " " + smtChar(r.Hi) + ")"
	case "union", "seq":
		if len(r.Sub) == 0 {
			if r.K == "union" {
				return "re.none"
			}
			return "(str.to_re \"\")"
		}
		op := "re.union"
		if r.K == "seq" {
			op = "re.++"
		}
		var parts []string
		for _, s := range r.Sub {
			parts = append(parts, s.SMT())
		}
		return "(" + op + " " + strings.Join(parts, " ") + ")"
	case "star":
		return "(re.* " + r.Sub[0].SMT() + ")"
	case "plus":
		return "(re.+ " + r.Sub[0].SMT() + ")"
	case "opt":
		return "(re.opt " + r.Sub[0].SMT() + ")"
	}
	panic("bad re kind " + r.K)
}

func goReChar(b byte) string { return fmt.Sprintf(`\x{%02x}`, b) }

func (r *Re) goSyntax() string {
	switch r.K {
	case "lit":
		var sb strings.Builder
		for i := 0; i < len(r.S); i++ {
			sb.WriteString(goReChar(r.S[i]))
		}
		return "(?:" + sb.String() + ")"
	case "range":
		return "[" + goReChar(r.Lo) + "-" + goReChar(r.Hi) + "]"
	case "union":
		if len(r.Sub) == 0 {
			return `[^\x{00}-\x{10FFFF}]`
		}
		var parts []string
		for _, s := range r.Sub {
			parts = append(parts, s.goSyntax())
		}
		return "(?:" + strings.Join(parts, "|") + ")"
	case "seq":
		var parts []string
		for _, s := range r.Sub {
			parts = append(parts, s.goSyntax())
		}
		return "(?:" + strings.Join(parts, "") + ")"
	case "star":
		return "(?:" + r.Sub[0].goSyntax() + ")*"
	case "plus":
		return "(?:" + r.Sub[0].goSyntax() + ")+"
	case "opt":
		return "(?:" + r.Sub[0].goSyntax() + ")?"
	}
	panic("bad re kind")
}

func latin1(s string) string {
	rs := make([]rune, len(s))
	for i := 0; i < len(s); i++ {
		rs[i] = rune(s[i])
	}
	return string(rs)
}

// MatchBytes reports whether the whole byte string s is in the language.
func (r *Re) MatchBytes(s string) bool {
	r.once.Do(func() { r.goRe = regexp.MustCompile(`(?s)^(?:` + r.goSyntax() + `)$`) })
	return r.goRe.MatchString(latin1(s))
}

// ---- parser for harness-side patterns
//
// Syntax: literals, \xhh, \n \t \\ \. etc., '.', [a-z0-9_], [^...], ( ), |, *, +, ?
// The pattern always describes the whole string.

var reCache sync.Map

func parseRe(p string) (*Re, error) {
	if v, ok := reCache.Load(p); ok {
		return v.(*Re), nil
	}
	ps := &reParser{s: p}
	r, err := ps.alt()
	if err != nil {
		return nil, err
	}
	if ps.i != len(p) {
		return nil, fmt.Errorf("regex %q: unexpected %q at %d", p, p[ps.i], ps.i)
	}
	reCache.Store(p, r)
	return r, nil
}

type reParser struct {
	s string
	i int
}

func (p *reParser) alt() (*Re, error) {
	var alts []*Re
	for {
		r, err := p.seq()
		if err != nil {
			return nil, err
		}
		alts = append(alts, r)
		if p.i < len(p.s) && p.s[p.i] == '|' {
			p.i++
			continue
		}
		break
	}
	return reUnion(alts...), nil
}

func (p *reParser) seq() (*Re, error) {
	var parts []*Re
	for p.i < len(p.s) && p.s[p.i] != '|' && p.s[p.i] != ')' {
		a, err := p.atom()
		if err != nil {
			return nil, err
		}
		for p.i < len(p.s) {
			switch p.s[p.i] {
			case '*':
				a = reStar(a)
				p.i++
				continue
			case '+':
				a = rePlus(a)
				p.i++
				continue
			case '?':
				a = reOpt(a)
				p.i++
				continue
			}
			break
		}
		parts = append(parts, a)
	}
	if len(parts) == 0 {
		return reLit(""), nil
	}
	// merge adjacent literals
	var out []*Re
	for _, a := range parts {
		if n := len(out); n > 0 && out[n-1].K == "lit" && a.K == "lit" {
			out[n-1] = reLit(out[n-1].S + a.S)
			continue
		}
		out = append(out, a)
	}
	return reSeq(out...), nil
}

func (p *reParser) escape() (byte, error) {
	// p.s[p.i] is the char after the backslash
	c := p.s[p.i]
	p.i++
	switch c {
	case 'n':
		return '\n', nil
	case 't':
		return '\t', nil
	case 'r':
		return '\r', nil
	case 'x':
		if p.i+2 > len(p.s) {
			return 0, fmt.Errorf("bad \\x escape")
		}
		var v byte
		_, err := fmt.Sscanf(p.s[p.i:p.i+2], "%02x", &v)
		p.i += 2
		return v, err
	}
	return c, nil
}

func (p *reParser) atom() (*Re, error) {
	c := p.s[p.i]
	switch c {
	case '(':
		p.i++
		r, err := p.alt()
		if err != nil {
			return nil, err
		}
		if p.i >= len(p.s) || p.s[p.i] != ')' {
			return nil, fmt.Errorf("regex %q: missing )", p.s)
		}
		p.i++
		return r, nil
	case '.':
		p.i++
		return reAnyByte(), nil
	case '[':
		p.i++
		neg := false
		if p.i < len(p.s) && p.s[p.i] == '^' {
			neg = true
			p.i++
		}
		var set [256]bool
		for {
			if p.i >= len(p.s) {
				return nil, fmt.Errorf("regex %q: missing ]", p.s)
			}
			if p.s[p.i] == ']' {
				p.i++
				break
			}
			lo := p.s[p.i]
			p.i++
			if lo == '\\' {
				var err error
				lo, err = p.escape()
				if err != nil {
					return nil, err
				}
			}
			hi := lo
			if p.i+1 < len(p.s) && p.s[p.i] == '-' && p.s[p.i+1] != ']' {
				p.i++
				hi = p.s[p.i]
				p.i++
				if hi == '\\' {
					var err error
					hi, err = p.escape()
					if err != nil {
						return nil, err
					}
				}
			}
			for b := int(lo); b <= int(hi); b++ {
				set[b] = true
			}
		}
		return reFromSet(set, neg), nil
	case '\\':
		p.i++
		if p.i >= len(p.s) {
			return nil, fmt.Errorf("regex %q: trailing backslash", p.s)
		}
		b, err := p.escape()
		if err != nil {
			return nil, err
		}
		return reLit(string([]byte{b})), nil
	}
	p.i++
	return reLit(string([]byte{c})), nil
}

func reFromSet(set [256]bool, neg bool) *Re {
	var rs []*Re
	i := 0
	for i < 256 {
		in := set[i] != neg
		if !in {
			i++
			continue
		}
		j := i
		for j+1 < 256 && (set[j+1] != neg) {
			j++
		}
		rs = append(rs, reRange(byte(i), byte(j)))
		i = j + 1
	}
	if len(rs) == 0 {
		// empty class: matches nothing; encode as an impossible range
		return &Re{K: "union", Sub: []*Re{}}
	}
	return reUnion(rs...)
}
