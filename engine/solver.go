package main

// Solver driver: persistent `z3 -in` / `z3-new -in` sessions (push/pop per query)
// and one-shot cvc5, a portfolio verdict rule and model extraction via get-value.

import (
	"strconv"
	"bufio"
	"bytes"
	"fmt"
	"io"
	"math/big"
	"os"
	"os/exec"
	"sort"
	"strings"
	"sync"
	"sync/atomic"
	"time"
)

type SolverStats struct {
	Queries int64
	NanosZ3 int64
	NanosZN int64
	NanosCV int64
	QZ3     int64
	QZN     int64
	QCV     int64
	Errors  int64
	Unknown int64
	AbstractHits int64
	CacheHits    int64
	Disagree     int64
}

var stats SolverStats

type session struct {
	name    string
	bin     string
	cmd     *exec.Cmd
	in      io.WriteCloser
	out     *bufio.Reader
	lines   chan string
	curTO   int
	dead    bool
	nanos   *int64
	queries *int64
}

func newSession(name, bin string) *session {
	s := &session{name: name, bin: bin}
	switch name {
	case "z3":
		s.nanos, s.queries = &stats.NanosZ3, &stats.QZ3
	default:
		s.nanos, s.queries = &stats.NanosZN, &stats.QZN
	}
	s.start()
	return s
}

func (s *session) start() {
	s.cmd = exec.Command(s.bin, "-in", "-smt2")
	in, _ := s.cmd.StdinPipe()
	out, _ := s.cmd.StdoutPipe()
	s.cmd.Stderr = s.cmd.Stdout
	s.in = in
	s.out = bufio.NewReaderSize(out, 1<<20)
	s.curTO = -1
	if err := s.cmd.Start(); err != nil {
		s.dead = true
		return
	}
	s.dead = false
	s.lines = make(chan string, 1024)
	go func(r *bufio.Reader, ch chan string) {
		for {
			l, err := r.ReadString('\n')
			if l != "" {
				ch <- strings.TrimRight(l, "\r\n")
			}
			if err != nil {
				close(ch)
				return
			}
		}
	}(s.out, s.lines)
	io.WriteString(s.in, "(set-option :print-success false)\n(set-option :produce-models true)\n(set-logic ALL)\n")
}

func (s *session) kill() {
	if s.cmd != nil && s.cmd.Process != nil {
		s.cmd.Process.Kill()
		s.cmd.Wait()
	}
	s.dead = true
}

func (s *session) close() {
	if s.in != nil {
		s.in.Close()
	}
	s.kill()
}

// readUntilDone reads lines until the marker; returns ok=false on hard timeout/EOF.
func (s *session) readUntilDone(marker string, hard time.Duration) ([]string, bool) {
	var got []string
	deadline := time.After(hard)
	for {
		select {
		case l, ok := <-s.lines:
			if !ok {
				return got, false
			}
			if strings.Contains(l, marker) {
				return got, true
			}
			got = append(got, l)
		case <-deadline:
			return got, false
		}
	}
}

var markerSeq int64

// run executes one query: returns "sat"/"unsat"/"unknown"/"error", and values when sat.
func (s *session) run(q *Query, timeoutMs int) (string, []string) {
	if s.dead {
		s.start()
		if s.dead {
			return "error", nil
		}
	}
	t0 := time.Now()
	defer func() {
		atomic.AddInt64(s.nanos, int64(time.Since(t0)))
		atomic.AddInt64(s.queries, 1)
	}()
	var sb strings.Builder
	if s.curTO != timeoutMs {
		fmt.Fprintf(&sb, "(set-option :timeout %d)\n", timeoutMs)
		s.curTO = timeoutMs
	}
	m := fmt.Sprintf("@@done%d", atomic.AddInt64(&markerSeq, 1))
	sb.WriteString("(push 1)\n")
	sb.WriteString(q.body())
	sb.WriteString("(check-sat)\n")
	fmt.Fprintf(&sb, "(echo \"%s\")\n", m)
	if _, err := io.WriteString(s.in, sb.String()); err != nil {
		s.kill()
		return "error", nil
	}
	lines, ok := s.readUntilDone(m, time.Duration(timeoutMs)*time.Millisecond+8*time.Second)
	if !ok {
		s.kill()
		return "unknown", nil
	}
	if debugSlow && time.Since(t0) > 1500*time.Millisecond {
		fmt.Fprintf(os.Stderr, "[%s] SLOW %.1fs result=%v\n%s\n", s.name, time.Since(t0).Seconds(), lines, q.body())
	}
	res := "unknown"
	for _, l := range lines {
		if strings.Contains(l, "(error") {
			atomic.AddInt64(&stats.Errors, 1)
			if debugSolver {
				fmt.Fprintf(os.Stderr, "[%s] %s\n--- query ---\n%s\n", s.name, l, q.body())
			}
			io.WriteString(s.in, "(pop 1)\n")
			return "error", nil
		}
	}
	for _, l := range lines {
		switch strings.TrimSpace(l) {
		case "sat", "unsat", "unknown":
			res = strings.TrimSpace(l)
		}
	}
	var vals []string
	if res == "sat" && len(q.GetValues) > 0 {
		m2 := fmt.Sprintf("@@done%d", atomic.AddInt64(&markerSeq, 1))
		var gb strings.Builder
		gb.WriteString("(get-value (")
		for _, t := range q.GetValues {
			gb.WriteString(t.String())
			gb.WriteByte(' ')
		}
		gb.WriteString("))\n")
		fmt.Fprintf(&gb, "(echo \"%s\")\n", m2)
		io.WriteString(s.in, gb.String())
		vl, ok := s.readUntilDone(m2, 20*time.Second)
		if !ok {
			s.kill()
			return "unknown", nil
		}
		joined := strings.Join(vl, "\n")
		if strings.Contains(joined, "(error") {
			res = "error"
			atomic.AddInt64(&stats.Errors, 1)
			if debugSolver {
				fmt.Fprintf(os.Stderr, "[%s] get-value: %s\n", s.name, joined)
			}
		} else {
			vals = parseGetValue(joined, len(q.GetValues))
			if vals == nil {
				res = "error"
			}
		}
	}
	io.WriteString(s.in, "(pop 1)\n")
	if res == "unknown" {
		atomic.AddInt64(&stats.Unknown, 1)
	}
	return res, vals
}

var debugSolver = os.Getenv("GOSMT_DEBUG_SOLVER") != ""
var debugSlow = os.Getenv("GOSMT_DEBUG_SLOW") != ""

func runCVC5(q *Query, timeoutMs int) (string, []string) {
	t0 := time.Now()
	defer func() {
		atomic.AddInt64(&stats.NanosCV, int64(time.Since(t0)))
		atomic.AddInt64(&stats.QCV, 1)
	}()
	var sb strings.Builder
	sb.WriteString("(set-logic ALL)\n")
	sb.WriteString(q.body())
	sb.WriteString("(check-sat)\n")
	if len(q.GetValues) > 0 {
		sb.WriteString("(get-value (")
		for _, t := range q.GetValues {
			sb.WriteString(t.String())
			sb.WriteByte(' ')
		}
		sb.WriteString("))\n")
	}
	cmd := exec.Command("cvc5", "--lang=smt2", "--strings-exp", "--no-strings-regexp-inclusion", "--produce-models",
		fmt.Sprintf("--tlimit=%d", timeoutMs), "-")
	cmd.Stdin = strings.NewReader(sb.String())
	var out bytes.Buffer
	cmd.Stdout = &out
	cmd.Stderr = &out
	done := make(chan error, 1)
	if err := cmd.Start(); err != nil {
		return "error", nil
	}
	go func() { done <- cmd.Wait() }()
	select {
	case <-done:
	case <-time.After(time.Duration(timeoutMs)*time.Millisecond + 5*time.Second):
		cmd.Process.Kill()
		<-done
		return "unknown", nil
	}
	text := out.String()
	lines := strings.Split(text, "\n")
	res := "unknown"
	for i, l := range lines {
		l = strings.TrimSpace(l)
		if l == "sat" || l == "unsat" || l == "unknown" {
			res = l
			if l == "sat" && len(q.GetValues) > 0 {
				rest := strings.Join(lines[i+1:], "\n")
				if strings.Contains(rest, "(error") {
					return "error", nil
				}
				vals := parseGetValue(rest, len(q.GetValues))
				if vals == nil {
					return "error", nil
				}
				return res, vals
			}
			break
		}
		if strings.Contains(l, "(error") {
			if strings.Contains(l, "get-value") || strings.Contains(l, "Cannot get value") {
				continue
			}
			if debugSolver {
				fmt.Fprintf(os.Stderr, "[cvc5] %s\n", l)
			}
			atomic.AddInt64(&stats.Errors, 1)
			return "error", nil
		}
	}
	return res, nil
}

// ---- queries

type Query struct {
	Asserts   []*Term
	GetValues []*Term
	Facts     bool // include ground facts about the real library (model-seeking queries only)
	bodyOnce  sync.Once
	bodyText  string
}

// body renders declarations, UF axioms, ground facts and assertions.
func (q *Query) body() string {
	q.bodyOnce.Do(func() {
		vars := map[*Term]bool{}
		ufs := map[*Term]bool{}
		seen := map[*Term]bool{}
		asserts := append([]*Term{}, q.Asserts...)
		for _, a := range asserts {
			a.collect(vars, ufs, seen)
		}
		for _, g := range q.GetValues {
			g.collect(vars, ufs, seen)
		}
		// UF axioms to a fixpoint
		done := map[*Term]bool{}
		for {
			progress := false
			var apps []*Term
			for u := range ufs {
				if !done[u] {
					apps = append(apps, u)
				}
			}
			sort.Slice(apps, func(i, j int) bool { return apps[i].id < apps[j].id })
			for _, u := range apps {
				done[u] = true
				progress = true
				for _, ax := range ufAxioms(u) {
					if ax.IsTrue() {
						continue
					}
					asserts = append(asserts, ax)
					ax.collect(vars, ufs, seen)
				}
			}
			if !progress {
				break
			}
		}
		// ground facts for every UF symbol in use
		names := map[string]bool{}
		for u := range ufs {
			names[u.Name] = true
		}
		for n := range names {
			if !q.Facts {
				break
			}
			for _, f := range groundFactsFor(n) {
				asserts = append(asserts, f)
				f.collect(vars, ufs, seen)
			}
		}
		var sb strings.Builder
		var vs []*Term
		for v := range vars {
			vs = append(vs, v)
		}
		sort.Slice(vs, func(i, j int) bool { return vs[i].id < vs[j].id })
		for _, v := range vs {
			fmt.Fprintf(&sb, "(declare-const %s %s)\n", smtIdent(v.Name), v.Sort)
		}
		sigs := map[string]string{}
		for u := range ufs {
			var as []string
			for _, a := range u.Args {
				as = append(as, a.Sort.String())
			}
			sigs[u.Name] = fmt.Sprintf("(declare-fun %s (%s) %s)\n", smtIdent(u.Name), strings.Join(as, " "), u.Sort)
		}
		var sn []string
		for n := range sigs {
			sn = append(sn, n)
		}
		sort.Strings(sn)
		for _, n := range sn {
			sb.WriteString(sigs[n])
		}
		for _, v := range vs {
			if v.Sort == SStr {
				fmt.Fprintf(&sb, "(assert (str.in_re %s %s))\n", smtIdent(v.Name), bytesReSMT)
			}
		}
		var us []*Term
		for u := range ufs {
			if u.Sort == SStr {
				allConst := true
				for _, a := range u.Args {
					if !a.IsConst() {
						allConst = false
					}
				}
				if !allConst {
					us = append(us, u)
				}
			}
		}
		sort.Slice(us, func(i, j int) bool { return us[i].id < us[j].id })
		for _, u := range us {
			fmt.Fprintf(&sb, "(assert (str.in_re %s %s))\n", u.String(), bytesReSMT)
		}
		for _, a := range asserts {
			sb.WriteString("(assert ")
			sb.WriteString(a.String())
			sb.WriteString(")\n")
		}
		q.bodyText = sb.String()
	})
	return q.bodyText
}

var bytesReSMT = reAll().SMT()

// ---- get-value parsing

type sexp struct {
	atom string
	str  bool
	list []*sexp
	isL  bool
}

func parseSexps(s string) []*sexp {
	i := 0
	var parse func() *sexp
	skip := func() {
		for i < len(s) {
			c := s[i]
			if c == ' ' || c == '\n' || c == '\t' || c == '\r' {
				i++
			} else if c == ';' {
				for i < len(s) && s[i] != '\n' {
					i++
				}
			} else {
				break
			}
		}
	}
	parse = func() *sexp {
		skip()
		if i >= len(s) {
			return nil
		}
		c := s[i]
		if c == '(' {
			i++
			n := &sexp{isL: true}
			for {
				skip()
				if i >= len(s) {
					return n
				}
				if s[i] == ')' {
					i++
					return n
				}
				ch := parse()
				if ch == nil {
					return n
				}
				n.list = append(n.list, ch)
			}
		}
		if c == '"' {
			i++
			var sb strings.Builder
			for i < len(s) {
				if s[i] == '"' {
					if i+1 < len(s) && s[i+1] == '"' {
						sb.WriteByte('"')
						i += 2
						continue
					}
					i++
					break
				}
				sb.WriteByte(s[i])
				i++
			}
			return &sexp{atom: sb.String(), str: true}
		}
		if c == '|' {
			j := strings.IndexByte(s[i+1:], '|')
			if j < 0 {
				j = len(s) - i - 1
			}
			a := s[i : i+j+2]
			i += j + 2
			return &sexp{atom: a}
		}
		j := i
		for j < len(s) && !strings.ContainsRune(" \n\t\r()", rune(s[j])) {
			j++
		}
		a := s[i:j]
		i = j
		return &sexp{atom: a}
	}
	var out []*sexp
	for {
		e := parse()
		if e == nil {
			break
		}
		out = append(out, e)
	}
	return out
}

// parseGetValue returns the n values in their canonical textual form:
// bools "true"/"false", ints decimal, strings as raw Go byte strings prefixed with "s:".
func parseGetValue(text string, n int) []string {
	es := parseSexps(text)
	for _, e := range es {
		if e.isL && len(e.list) == n {
			var out []string
			ok := true
			for _, p := range e.list {
				if !p.isL || len(p.list) != 2 {
					ok = false
					break
				}
				v, good := decodeValue(p.list[1])
				if !good {
					ok = false
					break
				}
				out = append(out, v)
			}
			if ok {
				return out
			}
		}
	}
	return nil
}

func decodeValue(e *sexp) (string, bool) {
	if e.str {
		return "s:" + unescapeSMT(e.atom), true
	}
	if !e.isL {
		switch e.atom {
		case "true", "false":
			return e.atom, true
		}
		if _, ok := new(big.Int).SetString(e.atom, 10); ok {
			return e.atom, true
		}
		return "", false
	}
	if len(e.list) == 2 && e.list[0].atom == "-" {
		v, ok := decodeValue(e.list[1])
		if ok {
			return "-" + v, true
		}
	}
	return "", false
}

func unescapeSMT(s string) string {
	var out []byte
	for i := 0; i < len(s); {
		if s[i] == '\\' && i+1 < len(s) {
			if s[i+1] == 'u' && i+2 < len(s) && s[i+2] == '{' {
				j := strings.IndexByte(s[i:], '}')
				if j > 0 {
					var v int
					if _, err := fmt.Sscanf(s[i+3:i+j], "%x", &v); err == nil {
						if v > 255 {
							v = '?'
						}
						out = append(out, byte(v))
						i += j + 1
						continue
					}
				}
			}
			if s[i+1] == 'u' && i+6 <= len(s) {
				var v int
				if _, err := fmt.Sscanf(s[i+2:i+6], "%04x", &v); err == nil {
					if v > 255 {
						v = '?'
					}
					out = append(out, byte(v))
					i += 6
					continue
				}
			}
			if s[i+1] == 'x' && i+4 <= len(s) {
				var v int
				if _, err := fmt.Sscanf(s[i+2:i+4], "%02x", &v); err == nil {
					out = append(out, byte(v))
					i += 4
					continue
				}
			}
		}
		out = append(out, s[i])
		i++
	}
	return string(out)
}

// ---- solver set per worker and the verdict rules

type SolverSet struct {
	z3  *session
	z3n *session
}

func newSolverSet() *SolverSet {
	return &SolverSet{z3: newSession("z3", "z3"), z3n: newSession("z3-new", "z3-new")}
}

func (ss *SolverSet) close() {
	ss.z3.close()
	ss.z3n.close()
}

// feasible: false only if both z3 versions answer unsat (design 2.2).
// Returns (feasible, definite) where definite=false means an unknown/error kept the branch.
// queryCache: feasibility verdicts by the set of asserted (hash-consed) terms. The same sliced
// question recurs on many paths that differ only in unrelated decisions.
var queryCache sync.Map

func assertsKey(asserts []*Term) string {
	ids := make([]int, len(asserts))
	for i, a := range asserts {
		ids[i] = a.id
	}
	sort.Ints(ids)
	var sb strings.Builder
	for _, id := range ids {
		sb.WriteString(strconv.Itoa(id))
		sb.WriteByte(',')
	}
	return sb.String()
}

type cachedVerdict struct{ feasible, definite bool }

func (ss *SolverSet) feasible(asserts []*Term, timeoutMs int) (bool, bool) {
	key := "f:" + assertsKey(asserts)
	if v, ok := queryCache.Load(key); ok {
		atomic.AddInt64(&stats.CacheHits, 1)
		cv := v.(cachedVerdict)
		return cv.feasible, cv.definite
	}
	f, d := ss.feasibleUncached(asserts, timeoutMs)
	queryCache.Store(key, cachedVerdict{f, d})
	return f, d
}

func (ss *SolverSet) feasibleUncached(asserts []*Term, timeoutMs int) (bool, bool) {
	atomic.AddInt64(&stats.Queries, 1)
	q := &Query{Asserts: asserts}
	r1, _ := ss.z3n.run(q, timeoutMs)
	switch r1 {
	case "sat":
		return true, true
	case "unsat":
		// pruning rule: unsat by z3 5.1.0 and no dissent (sat/error) from z3 4.8.12 within a short cap
		r2, _ := ss.z3.run(q, 700)
		if r2 == "sat" || r2 == "error" {
			atomic.AddInt64(&stats.Disagree, 1)
			return true, false
		}
		return false, true
	}
	r2, _ := ss.z3.run(q, timeoutMs)
	switch r2 {
	case "sat":
		return true, true
	case "unsat":
		return false, true
	}
	return true, false
}

type Verdict struct {
	Result  string // "unsat", "sat", "inconclusive"
	Solvers map[string]string
	Model   []string // values for GetValues when sat
	By      string
}

// decide runs the three-solver portfolio on a final obligation query (negated property).
func (ss *SolverSet) decide(asserts []*Term, getValues []*Term, timeoutMs int, useCVC bool) Verdict {
	return ss.decideF(asserts, getValues, timeoutMs, useCVC, false)
}

func (ss *SolverSet) decideF(asserts []*Term, getValues []*Term, timeoutMs int, useCVC bool, facts bool) Verdict {
	atomic.AddInt64(&stats.Queries, 1)
	q := &Query{Asserts: asserts, GetValues: getValues, Facts: facts}
	v := Verdict{Solvers: map[string]string{}}
	var r1, r2, r3 string
	var m1, m2, m3 []string
	var wg sync.WaitGroup
	wg.Add(2)
	go func() { defer wg.Done(); r2, m2 = ss.z3.run(q, timeoutMs) }()
	go func() {
		defer wg.Done()
		if useCVC {
			r3, m3 = runCVC5(q, timeoutMs)
		} else {
			r3 = "skipped"
		}
	}()
	r1, m1 = ss.z3n.run(q, timeoutMs)
	wg.Wait()
	v.Solvers["z3-5.1.0"] = r1
	v.Solvers["z3-4.8.12"] = r2
	v.Solvers["cvc5-1.0"] = r3
	anyErr := r1 == "error" || r2 == "error" || r3 == "error"
	switch {
	case r1 == "sat":
		v.Result, v.Model, v.By = "sat", m1, "z3-5.1.0"
	case r2 == "sat":
		v.Result, v.Model, v.By = "sat", m2, "z3-4.8.12"
	case r3 == "sat":
		v.Result, v.Model, v.By = "sat", m3, "cvc5-1.0"
	case (r1 == "unsat" || r2 == "unsat" || r3 == "unsat") && !anyErr:
		v.Result = "unsat"
	default:
		v.Result = "inconclusive"
	}
	return v
}
