package main

// Terms: hash-consed SMT terms with a light simplifier and an SMT-LIB2 printer.
// Convention: a Go string is an SMT String with one character per byte.

import (
	"fmt"
	"math/big"
	"sort"
	"strconv"
	"strings"
	"sync"
)

type Sort int

const (
	SBool Sort = iota
	SInt
	SStr
)

func (s Sort) String() string {
	switch s {
	case SBool:
		return "Bool"
	case SInt:
		return "Int"
	}
	return "String"
}

type Term struct {
	Op   string // "const", "var", "uf", or an SMT operator
	Args []*Term
	Sort Sort
	B    bool
	I    *big.Int
	S    string
	Name string // var or uf name
	Re   *Re    // for str.in_re
	id   int
	fvOnce sync.Once
	fv     []int
}

var (
	internMu  sync.Mutex
	internTab = map[string]*Term{}
	internSeq int
)

func intern(t *Term) *Term {
	var sb strings.Builder
	sb.WriteString(t.Op)
	sb.WriteByte('|')
	sb.WriteString(strconv.Itoa(int(t.Sort)))
	sb.WriteByte('|')
	switch t.Op {
	case "const":
		switch t.Sort {
		case SBool:
			if t.B {
				sb.WriteString("T")
			} else {
				sb.WriteString("F")
			}
		case SInt:
			sb.WriteString(t.I.String())
		case SStr:
			sb.WriteString(strconv.Quote(t.S))
		}
	case "var", "uf":
		sb.WriteString(t.Name)
	}
	if t.Re != nil {
		sb.WriteString("re:")
		sb.WriteString(t.Re.Key())
	}
	for _, a := range t.Args {
		sb.WriteByte(',')
		sb.WriteString(strconv.Itoa(a.id))
	}
	k := sb.String()
	internMu.Lock()
	defer internMu.Unlock()
	if e, ok := internTab[k]; ok {
		return e
	}
	internSeq++
	t.id = internSeq
	internTab[k] = t
	return t
}

var (
	tTrue  = intern(&Term{Op: "const", Sort: SBool, B: true})
	tFalse = intern(&Term{Op: "const", Sort: SBool, B: false})
)

func mkBool(b bool) *Term {
	if b {
		return tTrue
	}
	return tFalse
}
func mkInt(i int64) *Term      { return intern(&Term{Op: "const", Sort: SInt, I: big.NewInt(i)}) }
func mkBig(i *big.Int) *Term   { return intern(&Term{Op: "const", Sort: SInt, I: new(big.Int).Set(i)}) }
func mkStr(s string) *Term     { return intern(&Term{Op: "const", Sort: SStr, S: s}) }
func mkVar(n string, s Sort) *Term { return intern(&Term{Op: "var", Sort: s, Name: n}) }
func mkUF(n string, s Sort, args ...*Term) *Term {
	return intern(&Term{Op: "uf", Sort: s, Name: n, Args: args})
}

func (t *Term) IsConst() bool { return t.Op == "const" }
func (t *Term) IsTrue() bool  { return t == tTrue }
func (t *Term) IsFalse() bool { return t == tFalse }

func (t *Term) Int64() int64 {
	if !t.IsConst() || t.Sort != SInt {
		panic("Int64 of non-const " + t.String())
	}
	return t.I.Int64()
}

func mkApp(op string, s Sort, args ...*Term) *Term {
	return intern(&Term{Op: op, Sort: s, Args: args})
}

// ---- booleans

func mkNot(a *Term) *Term {
	if a.IsConst() {
		return mkBool(!a.B)
	}
	if a.Op == "not" {
		return a.Args[0]
	}
	return mkApp("not", SBool, a)
}

func mkAnd(as ...*Term) *Term {
	var out []*Term
	seen := map[int]bool{}
	for _, a := range as {
		if a.IsFalse() {
			return tFalse
		}
		if a.IsTrue() {
			continue
		}
		if a.Op == "and" {
			for _, b := range a.Args {
				if !seen[b.id] {
					seen[b.id] = true
					out = append(out, b)
				}
			}
			continue
		}
		if !seen[a.id] {
			seen[a.id] = true
			out = append(out, a)
		}
	}
	for _, a := range out {
		if seen[mkNot(a).id] {
			return tFalse
		}
	}
	if len(out) == 0 {
		return tTrue
	}
	if len(out) == 1 {
		return out[0]
	}
	return mkApp("and", SBool, out...)
}

func mkOr(as ...*Term) *Term {
	var out []*Term
	seen := map[int]bool{}
	for _, a := range as {
		if a.IsTrue() {
			return tTrue
		}
		if a.IsFalse() {
			continue
		}
		if a.Op == "or" {
			for _, b := range a.Args {
				if !seen[b.id] {
					seen[b.id] = true
					out = append(out, b)
				}
			}
			continue
		}
		if !seen[a.id] {
			seen[a.id] = true
			out = append(out, a)
		}
	}
	for _, a := range out {
		if seen[mkNot(a).id] {
			return tTrue
		}
	}
	if len(out) == 0 {
		return tFalse
	}
	if len(out) == 1 {
		return out[0]
	}
	return mkApp("or", SBool, out...)
}

func mkImplies(a, b *Term) *Term { return mkOr(mkNot(a), b) }

func mkIte(c, a, b *Term) *Term {
	if c.IsTrue() {
		return a
	}
	if c.IsFalse() {
		return b
	}
	if a == b {
		return a
	}
	if a.Sort == SBool {
		return mkOr(mkAnd(c, a), mkAnd(mkNot(c), b))
	}
	return mkApp("ite", a.Sort, c, a, b)
}

// ---- equality

func mkEq(a, b *Term) *Term {
	if a == b {
		return tTrue
	}
	if a.Sort != b.Sort {
		panic(fmt.Sprintf("mkEq sort mismatch %v %v", a, b))
	}
	if a.IsConst() && b.IsConst() {
		switch a.Sort {
		case SBool:
			return mkBool(a.B == b.B)
		case SInt:
			return mkBool(a.I.Cmp(b.I) == 0)
		case SStr:
			return mkBool(a.S == b.S)
		}
	}
	if a.Sort == SBool {
		if a.IsConst() {
			a, b = b, a
		}
		if b.IsConst() {
			if b.B {
				return a
			}
			return mkNot(a)
		}
	}
	if a.Sort == SStr {
		// strip common constant/identical prefix and suffix pieces of concatenations
		pa, pb := concatParts(a), concatParts(b)
		changed := false
		for len(pa) > 0 && len(pb) > 0 {
			x, y := pa[0], pb[0]
			if x == y {
				pa, pb = pa[1:], pb[1:]
				changed = true
				continue
			}
			if x.IsConst() && y.IsConst() {
				n := len(x.S)
				if len(y.S) < n {
					n = len(y.S)
				}
				if x.S[:n] != y.S[:n] {
					return tFalse
				}
				// one is a prefix of the other: strip it
				pa = append([]*Term{}, pa...)
				pb = append([]*Term{}, pb...)
				if len(x.S) == n {
					pa = pa[1:]
				} else {
					pa[0] = mkStr(x.S[n:])
				}
				if len(y.S) == n {
					pb = pb[1:]
				} else {
					pb[0] = mkStr(y.S[n:])
				}
				changed = true
				continue
			}
			break
		}
		for len(pa) > 0 && len(pb) > 0 {
			x, y := pa[len(pa)-1], pb[len(pb)-1]
			if x == y {
				pa, pb = pa[:len(pa)-1], pb[:len(pb)-1]
				changed = true
				continue
			}
			if x.IsConst() && y.IsConst() {
				n := len(x.S)
				if len(y.S) < n {
					n = len(y.S)
				}
				if x.S[len(x.S)-n:] != y.S[len(y.S)-n:] {
					return tFalse
				}
				pa = append([]*Term{}, pa...)
				pb = append([]*Term{}, pb...)
				if len(x.S) == n {
					pa = pa[:len(pa)-1]
				} else {
					pa[len(pa)-1] = mkStr(x.S[:len(x.S)-n])
				}
				if len(y.S) == n {
					pb = pb[:len(pb)-1]
				} else {
					pb[len(pb)-1] = mkStr(y.S[:len(y.S)-n])
				}
				changed = true
				continue
			}
			break
		}
		if changed {
			return mkEq(mkConcat(pa...), mkConcat(pb...))
		}
		// "" = x ++ "c" ++ y is false when a side has a non-empty constant and the other is empty
		if a.IsConst() && a.S == "" {
			a, b = b, a
		}
		if b.IsConst() && b.S == "" {
			for _, p := range concatParts(a) {
				if p.IsConst() && p.S != "" {
					return tFalse
				}
			}
		}
	}
	if a.id > b.id {
		a, b = b, a
	}
	return mkApp("=", SBool, a, b)
}

func mkNe(a, b *Term) *Term { return mkNot(mkEq(a, b)) }

// ---- strings

func concatParts(t *Term) []*Term {
	if t.Op == "str.++" {
		return t.Args
	}
	if t.IsConst() && t.S == "" {
		return nil
	}
	return []*Term{t}
}

func mkConcat(as ...*Term) *Term {
	var out []*Term
	for _, a := range as {
		if a.Sort != SStr {
			panic("mkConcat non-string " + a.String())
		}
		for _, p := range concatParts(a) {
			if p.IsConst() {
				if p.S == "" {
					continue
				}
				if n := len(out); n > 0 && out[n-1].IsConst() {
					out[n-1] = mkStr(out[n-1].S + p.S)
					continue
				}
			}
			out = append(out, p)
		}
	}
	if len(out) == 0 {
		return mkStr("")
	}
	if len(out) == 1 {
		return out[0]
	}
	return mkApp("str.++", SStr, out...)
}

func mkLen(s *Term) *Term {
	if s.IsConst() {
		return mkInt(int64(len(s.S)))
	}
	if s.Op == "str.++" {
		var sum []*Term
		for _, p := range s.Args {
			sum = append(sum, mkLen(p))
		}
		return mkAdd(sum...)
	}
	return mkApp("str.len", SInt, s)
}

func mkSubstr(s, off, n *Term) *Term {
	if s.IsConst() && off.IsConst() && n.IsConst() {
		o, l := off.Int64(), n.Int64()
		if o >= 0 && l >= 0 && o+l <= int64(len(s.S)) {
			return mkStr(s.S[o : o+l])
		}
	}
	if off.IsConst() && off.Int64() == 0 && n == mkLen(s) {
		return s
	}
	if n.IsConst() && n.Int64() == 0 {
		return mkStr("")
	}
	// a prefix of a concatenation whose length is syntactically the length of leading pieces
	if s.Op == "str.++" && off.IsConst() && off.Int64() == 0 {
		for k := 1; k < len(s.Args); k++ {
			if n == mkLen(mkConcat(s.Args[:k]...)) {
				return mkConcat(s.Args[:k]...)
			}
		}
	}
	// slicing a concatenation at piece boundaries with constant offsets
	if s.Op == "str.++" && off.IsConst() {
		parts := s.Args
		o := off.Int64()
		i := 0
		for i < len(parts) && parts[i].IsConst() && int64(len(parts[i].S)) <= o {
			o -= int64(len(parts[i].S))
			i++
		}
		if i > 0 || (i < len(parts) && parts[i].IsConst() && o > 0) {
			rest := append([]*Term{}, parts[i:]...)
			if o > 0 && len(rest) > 0 && rest[0].IsConst() {
				rest[0] = mkStr(rest[0].S[o:])
				o = 0
			}
			if o == 0 {
				ns := mkConcat(rest...)
				return mkSubstr(ns, mkInt(0), n)
			}
		}
	}
	return mkApp("str.substr", SStr, s, off, n)
}

func mkFromInt(i *Term) *Term {
	if i.IsConst() {
		if i.I.Sign() < 0 {
			return mkStr("")
		}
		return mkStr(i.I.String())
	}
	return mkApp("str.from_int", SStr, i)
}

// cmpLeading compares two string terms on their leading constant pieces:
// -1 / +1 if the order is decided by a differing byte inside both constant prefixes, 0 otherwise.
func cmpLeading(a, b *Term) int {
	pa, pb := concatParts(a), concatParts(b)
	// strip identical leading pieces
	for len(pa) > 0 && len(pb) > 0 && pa[0] == pb[0] {
		pa, pb = pa[1:], pb[1:]
	}
	if len(pa) == 0 || len(pb) == 0 || !pa[0].IsConst() || !pb[0].IsConst() {
		return 0
	}
	x, y := pa[0].S, pb[0].S
	n := len(x)
	if len(y) < n {
		n = len(y)
	}
	for i := 0; i < n; i++ {
		if x[i] != y[i] {
			if x[i] < y[i] {
				return -1
			}
			return 1
		}
	}
	return 0
}

func mkStrLt(a, b *Term) *Term {
	if a.IsConst() && b.IsConst() {
		return mkBool(a.S < b.S)
	}
	if a == b {
		return tFalse
	}
	if c := cmpLeading(a, b); c != 0 {
		return mkBool(c < 0)
	}
	if a.IsConst() && a.S == "" {
		return mkNot(mkEq(b, a))
	}
	if b.IsConst() && b.S == "" {
		return tFalse
	}
	return mkApp("str.<", SBool, a, b)
}

func mkStrLe(a, b *Term) *Term {
	return mkNot(mkStrLt(b, a))
}

func mkPrefixOf(p, s *Term) *Term {
	if p.IsConst() && s.IsConst() {
		return mkBool(strings.HasPrefix(s.S, p.S))
	}
	if !p.IsConst() {
		// piecewise: strip identical leading pieces (and common constant prefixes)
		pp, sp := concatParts(p), concatParts(s)
		for len(pp) > 0 && len(sp) > 0 {
			if pp[0] == sp[0] {
				pp, sp = pp[1:], sp[1:]
				continue
			}
			if pp[0].IsConst() && sp[0].IsConst() {
				x, y := pp[0].S, sp[0].S
				if strings.HasPrefix(y, x) {
					pp = pp[1:]
					if len(y) == len(x) {
						sp = sp[1:]
					} else {
						sp = append([]*Term{mkStr(y[len(x):])}, sp[1:]...)
					}
					continue
				}
				if strings.HasPrefix(x, y) && len(sp) > 1 {
					pp = append([]*Term{mkStr(x[len(y):])}, pp[1:]...)
					sp = sp[1:]
					continue
				}
				if !strings.HasPrefix(x, y) {
					return tFalse
				}
			}
			break
		}
		if len(pp) == 0 {
			return tTrue
		}
		if len(pp) != len(concatParts(p)) {
			return mkPrefixOf(mkConcat(pp...), mkConcat(sp...))
		}
	}
	if p.IsConst() {
		if p.S == "" {
			return tTrue
		}
		parts := concatParts(s)
		if len(parts) > 0 && parts[0].IsConst() {
			h := parts[0].S
			if len(h) >= len(p.S) {
				return mkBool(strings.HasPrefix(h, p.S))
			}
			if !strings.HasPrefix(p.S, h) {
				return tFalse
			}
		}
	}
	return mkApp("str.prefixof", SBool, p, s)
}

func mkSuffixOf(p, s *Term) *Term {
	if p.IsConst() && s.IsConst() {
		return mkBool(strings.HasSuffix(s.S, p.S))
	}
	if p.IsConst() {
		if p.S == "" {
			return tTrue
		}
		parts := concatParts(s)
		if n := len(parts); n > 0 && parts[n-1].IsConst() {
			h := parts[n-1].S
			if len(h) >= len(p.S) {
				return mkBool(strings.HasSuffix(h, p.S))
			}
			if !strings.HasSuffix(p.S, h) {
				return tFalse
			}
		}
	}
	return mkApp("str.suffixof", SBool, p, s)
}

func mkContains(s, needle *Term) *Term {
	if needle.IsConst() {
		if s.IsConst() {
			return mkBool(strings.Contains(s.S, needle.S))
		}
		if needle.S == "" {
			return tTrue
		}
		for _, p := range concatParts(s) {
			if p.IsConst() && strings.Contains(p.S, needle.S) {
				return tTrue
			}
		}
		return mkInRe(s, reSeq(reAll(), reLit(needle.S), reAll()))
	}
	return mkApp("str.contains", SBool, s, needle)
}

// reLits: the regex is a finite union of literals.
func reLits(re *Re) ([]string, bool) {
	switch re.K {
	case "lit":
		return []string{re.S}, true
	case "union":
		var out []string
		for _, s := range re.Sub {
			if s.K != "lit" {
				return nil, false
			}
			out = append(out, s.S)
		}
		return out, true
	}
	return nil, false
}

func mkInRe(s *Term, re *Re) *Term {
	if s.IsConst() {
		return mkBool(re.MatchBytes(s.S))
	}
	if s.Op == "str.++" {
		if lits, ok := reLits(re); ok {
			// membership of a concatenation with constant pieces in a finite set of words:
			// keep only the words compatible with the constant pieces
			parts := s.Args
			nonConst := 0
			for _, p := range parts {
				if !p.IsConst() {
					nonConst++
				}
			}
			var keep []string
			for _, l := range lits {
				pos := 0
				ok := true
				for i, p := range parts {
					if !p.IsConst() {
						continue
					}
					if i == 0 {
						if !strings.HasPrefix(l, p.S) {
							ok = false
							break
						}
						pos = len(p.S)
						continue
					}
					j := strings.Index(l[pos:], p.S)
					if j < 0 {
						ok = false
						break
					}
					pos += j + len(p.S)
				}
				if ok && parts[len(parts)-1].IsConst() && !strings.HasSuffix(l, parts[len(parts)-1].S) {
					ok = false
				}
				if ok {
					keep = append(keep, l)
				}
			}
			if len(keep) == 0 {
				return tFalse
			}
			if nonConst == 1 {
				pre, suf := "", ""
				var x *Term
				for _, p := range parts {
					if p.IsConst() {
						if x == nil {
							pre += p.S
						} else {
							suf += p.S
						}
					} else {
						x = p
					}
				}
				var trimmed []*Re
				seen := map[string]bool{}
				for _, l := range keep {
					if len(l) >= len(pre)+len(suf) && strings.HasPrefix(l, pre) && strings.HasSuffix(l, suf) {
						m := l[len(pre) : len(l)-len(suf)]
						if !seen[m] {
							seen[m] = true
							trimmed = append(trimmed, reLit(m))
						}
					}
				}
				if len(trimmed) == 0 {
					return tFalse
				}
				return mkInRe(x, reUnion(trimmed...))
			}
			if len(keep) < len(lits) {
				var ks []*Re
				for _, l := range keep {
					ks = append(ks, reLit(l))
				}
				re = reUnion(ks...)
			}
		}
	}
	if lits, ok := reLits(re); ok && len(lits) == 1 {
		return mkEq(s, mkStr(lits[0]))
	}
	return intern(&Term{Op: "str.in_re", Sort: SBool, Args: []*Term{s}, Re: re})
}

// ---- integers

func mkAdd(as ...*Term) *Term {
	c := new(big.Int)
	var out []*Term
	for _, a := range as {
		if a.Op == "+" {
			for _, b := range a.Args {
				if b.IsConst() {
					c.Add(c, b.I)
				} else {
					out = append(out, b)
				}
			}
			continue
		}
		if a.IsConst() {
			c.Add(c, a.I)
		} else {
			out = append(out, a)
		}
	}
	// cancel x and (- x)
	var kept []*Term
	used := make([]bool, len(out))
	for i, a := range out {
		if used[i] {
			continue
		}
		cancelled := false
		for j := i + 1; j < len(out); j++ {
			if used[j] {
				continue
			}
			b := out[j]
			if (a.Op == "neg" && a.Args[0] == b) || (b.Op == "neg" && b.Args[0] == a) {
				used[j] = true
				cancelled = true
				break
			}
		}
		if !cancelled {
			kept = append(kept, a)
		}
	}
	out = kept
	sort.SliceStable(out, func(i, j int) bool { return out[i].id < out[j].id })
	if c.Sign() != 0 || len(out) == 0 {
		out = append(out, mkBig(c))
	}
	if len(out) == 1 {
		return out[0]
	}
	return mkApp("+", SInt, out...)
}

func mkNeg(a *Term) *Term {
	if a.IsConst() {
		return mkBig(new(big.Int).Neg(a.I))
	}
	if a.Op == "neg" {
		return a.Args[0]
	}
	if a.Op == "+" {
		var ns []*Term
		for _, x := range a.Args {
			ns = append(ns, mkNeg(x))
		}
		return mkAdd(ns...)
	}
	return mkApp("neg", SInt, a)
}

func mkSub(a, b *Term) *Term { return mkAdd(a, mkNeg(b)) }

func mkMul(a, b *Term) *Term {
	if a.IsConst() && b.IsConst() {
		return mkBig(new(big.Int).Mul(a.I, b.I))
	}
	return mkApp("*", SInt, a, b)
}

func mkDiv(a, b *Term) *Term {
	// Go truncated division; only used with constants or non-negative operands in harnesses
	if a.IsConst() && b.IsConst() && b.I.Sign() != 0 {
		return mkBig(new(big.Int).Quo(a.I, b.I))
	}
	return mkApp("div", SInt, a, b)
}

func mkMod(a, b *Term) *Term {
	if a.IsConst() && b.IsConst() && b.I.Sign() != 0 {
		return mkBig(new(big.Int).Rem(a.I, b.I))
	}
	return mkApp("mod", SInt, a, b)
}

func mkLt(a, b *Term) *Term {
	if a.IsConst() && b.IsConst() {
		return mkBool(a.I.Cmp(b.I) < 0)
	}
	if a == b {
		return tFalse
	}
	if r, ok := cmpViaDiff(a, b); ok {
		return mkBool(r < 0)
	}
	return mkApp("<", SBool, a, b)
}

func mkLe(a, b *Term) *Term {
	if a.IsConst() && b.IsConst() {
		return mkBool(a.I.Cmp(b.I) <= 0)
	}
	if a == b {
		return tTrue
	}
	if r, ok := cmpViaDiff(a, b); ok {
		return mkBool(r <= 0)
	}
	return mkApp("<=", SBool, a, b)
}

// cmpViaDiff decides a-b when it folds to a constant (e.g. x+1 vs x).
func cmpViaDiff(a, b *Term) (int, bool) {
	d := mkSub(a, b)
	if d.IsConst() {
		return d.I.Sign(), true
	}
	return 0, false
}

// ---- printing

func smtStringLit(s string) string {
	var sb strings.Builder
	sb.WriteByte('"')
	for i := 0; i < len(s); i++ {
		c := s[i]
		switch {
		case c == '"':
			sb.WriteString(`""`)
		case c == '\\':
			sb.WriteString(`\u{5c}`)
		case c >= 0x20 && c <= 0x7e:
			sb.WriteByte(c)
		default:
			fmt.Fprintf(&sb, `\u{%x}`, c)
		}
	}
	sb.WriteByte('"')
	return sb.String()
}

func smtIdent(n string) string {
	ok := true
	for i := 0; i < len(n); i++ {
		c := n[i]
		if !(c >= 'a' && c <= 'z' || c >= 'A' && c <= 'Z' || c >= '0' && c <= '9' || c == '_' || c == '.' || c == '$') {
			ok = false
			break
		}
	}
	if ok && n != "" {
		return n
	}
	return "|" + strings.NewReplacer("|", "!", "\\", "!").Replace(n) + "|"
}

func (t *Term) String() string {
	var sb strings.Builder
	t.write(&sb)
	return sb.String()
}

func (t *Term) write(sb *strings.Builder) {
	switch t.Op {
	case "const":
		switch t.Sort {
		case SBool:
			if t.B {
				sb.WriteString("true")
			} else {
				sb.WriteString("false")
			}
		case SInt:
			if t.I.Sign() < 0 {
				sb.WriteString("(- ")
				sb.WriteString(new(big.Int).Neg(t.I).String())
				sb.WriteString(")")
			} else {
				sb.WriteString(t.I.String())
			}
		case SStr:
			sb.WriteString(smtStringLit(t.S))
		}
	case "var":
		sb.WriteString(smtIdent(t.Name))
	case "uf":
		if len(t.Args) == 0 {
			sb.WriteString(smtIdent(t.Name))
			return
		}
		sb.WriteByte('(')
		sb.WriteString(smtIdent(t.Name))
		for _, a := range t.Args {
			sb.WriteByte(' ')
			a.write(sb)
		}
		sb.WriteByte(')')
	case "str.in_re":
		sb.WriteString("(str.in_re ")
		t.Args[0].write(sb)
		sb.WriteByte(' ')
		sb.WriteString(t.Re.SMT())
		sb.WriteByte(')')
	case "neg":
		sb.WriteString("(- ")
		t.Args[0].write(sb)
		sb.WriteByte(')')
	default:
		sb.WriteByte('(')
		sb.WriteString(t.Op)
		for _, a := range t.Args {
			sb.WriteByte(' ')
			a.write(sb)
		}
		sb.WriteByte(')')
	}
}

// collect gathers the free variables and UF applications of t.
func (t *Term) collect(vars map[*Term]bool, ufs map[*Term]bool, seen map[*Term]bool) {
	if seen[t] {
		return
	}
	seen[t] = true
	switch t.Op {
	case "var":
		vars[t] = true
	case "uf":
		ufs[t] = true
	}
	for _, a := range t.Args {
		a.collect(vars, ufs, seen)
	}
}

// termRange: cheap interval bound of an integer term (nil = unbounded on that side).
func termRange(t *Term) (lo, hi *big.Int) {
	big62 := new(big.Int).Lsh(big.NewInt(1), 48) // no Go string is longer than 2^48 bytes
	switch t.Op {
	case "const":
		return t.I, t.I
	case "str.len":
		return big.NewInt(0), big62
	case "str.to_code":
		return big.NewInt(-1), big.NewInt(0x2ffff)
	case "str.to_int":
		return big.NewInt(-1), nil
	case "uf":
		switch t.Name {
		case "lastindex":
			return big.NewInt(-1), big62
		case "utf8size":
			return big.NewInt(1), big.NewInt(4)
		case "utf8rune":
			return big.NewInt(0), big.NewInt(0x10ffff)
		}
		return nil, nil
	case "neg":
		l, h := termRange(t.Args[0])
		var nl, nh *big.Int
		if h != nil {
			nl = new(big.Int).Neg(h)
		}
		if l != nil {
			nh = new(big.Int).Neg(l)
		}
		return nl, nh
	case "+":
		lo, hi = big.NewInt(0), big.NewInt(0)
		for _, a := range t.Args {
			l, h := termRange(a)
			if l == nil {
				lo = nil
			} else if lo != nil {
				lo = new(big.Int).Add(lo, l)
			}
			if h == nil {
				hi = nil
			} else if hi != nil {
				hi = new(big.Int).Add(hi, h)
			}
		}
		return lo, hi
	}
	return nil, nil
}

func rangeWithin(t *Term, lo, hi *big.Int) bool {
	l, h := termRange(t)
	return l != nil && h != nil && l.Cmp(lo) >= 0 && h.Cmp(hi) <= 0
}


func mkFromCode(i *Term) *Term {
	if i.IsConst() {
		if i.I.IsInt64() && i.Int64() >= 0 && i.Int64() <= 255 {
			return mkStr(string([]byte{byte(i.Int64())}))
		}
		return mkStr("")
	}
	// from_code(to_code(x)) = x for a one-byte x
	if i.Op == "str.to_code" {
		x := i.Args[0]
		if x.Op == "str.substr" && x.Args[2].IsConst() && x.Args[2].Int64() == 1 {
			return x
		}
	}
	return mkApp("str.from_code", SStr, i)
}
