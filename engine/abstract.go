package main

// Over-approximation used as a first attempt for unsat-seeking queries: every
// outermost UF application is replaced by a fresh variable that keeps only the
// contract axioms mentioning nothing but the application itself. If the weakened
// query is unsat, so is the real one; otherwise the full query decides.

import (
	"fmt"
	"sync/atomic"
)

func abstractTerm(t *Term, m map[*Term]*Term, memo map[*Term]*Term) *Term {
	if r, ok := memo[t]; ok {
		return r
	}
	var r *Term
	switch t.Op {
	case "const", "var":
		r = t
	case "uf":
		v, ok := m[t]
		if !ok {
			v = mkVar(fmt.Sprintf("abs!%d", t.id), t.Sort)
			m[t] = v
		}
		r = v
	default:
		changed := false
		args := make([]*Term, len(t.Args))
		for i, a := range t.Args {
			args[i] = abstractTerm(a, m, memo)
			if args[i] != a {
				changed = true
			}
		}
		if !changed {
			r = t
		} else {
			r = intern(&Term{Op: t.Op, Sort: t.Sort, Args: args, Re: t.Re})
		}
	}
	memo[t] = r
	return r
}

// abstractUnsat: pc ∧ t is unsatisfiable already in the weakened form (sliced after abstraction).
func (ss *SolverSet) abstractUnsat(pc []*Term, t *Term, timeoutMs int) bool {
	all := append(append([]*Term{}, pc...), t)
	ab := abstractAsserts(all)
	if ab == nil {
		return false
	}
	tt := ab[len(pc)]
	rest := append(append([]*Term{}, ab[:len(pc)]...), ab[len(pc)+1:]...)
	sl := append(sliceTerms(rest, tt), tt)
	key := "a:" + assertsKey(sl)
	if v, ok := queryCache.Load(key); ok {
		atomic.AddInt64(&stats.CacheHits, 1)
		return v.(bool)
	}
	res := ss.abstractUnsatUncached(sl, timeoutMs)
	queryCache.Store(key, res)
	return res
}

func (ss *SolverSet) abstractUnsatUncached(sl []*Term, timeoutMs int) bool {
	q := &Query{Asserts: sl}
	if r, _ := ss.z3n.run(q, timeoutMs); r != "unsat" {
		return false
	}
	// second opinion: a dissenting sat keeps the branch; unknown/timeout does not
	if r, _ := ss.z3.run(q, 700); r == "sat" || r == "error" {
		atomic.AddInt64(&stats.Disagree, 1)
		return false
	}
	atomic.AddInt64(&stats.AbstractHits, 1)
	return true
}

// abstractAsserts returns the weakened assertion set (same order, axioms appended), or nil if nothing would change.
func abstractAsserts(asserts []*Term) []*Term {
	m := map[*Term]*Term{}
	memo := map[*Term]*Term{}
	var out []*Term
	for _, a := range asserts {
		out = append(out, abstractTerm(a, m, memo))
	}
	if len(m) == 0 {
		return nil
	}
	for app, v := range m {
		for _, ax := range ufAxioms(app) {
			m2 := map[*Term]*Term{app: v}
			memo2 := map[*Term]*Term{}
			ab := abstractTerm(ax, m2, memo2)
			if len(m2) != 1 {
				continue // mentions another application: dropped (weakening)
			}
			vars, ufs, seen := map[*Term]bool{}, map[*Term]bool{}, map[*Term]bool{}
			ab.collect(vars, ufs, seen)
			if len(ufs) == 0 && len(vars) == 1 && vars[v] {
				out = append(out, ab)
			}
		}
	}
	return out
}

// renameFresh renames the witness variables introduced by the encoding (names containing '!')
// so that two paths' conditions can be conjoined.
func renameFresh(t *Term, suffix string, memo map[*Term]*Term) *Term {
	if r, ok := memo[t]; ok {
		return r
	}
	var r *Term
	switch t.Op {
	case "const":
		r = t
	case "var":
		if containsBang(t.Name) {
			r = mkVar(t.Name+suffix, t.Sort)
		} else {
			r = t
		}
	default:
		changed := false
		args := make([]*Term, len(t.Args))
		for i, a := range t.Args {
			args[i] = renameFresh(a, suffix, memo)
			if args[i] != a {
				changed = true
			}
		}
		if !changed {
			r = t
		} else {
			r = intern(&Term{Op: t.Op, Sort: t.Sort, Args: args, Re: t.Re, Name: t.Name})
		}
	}
	memo[t] = r
	return r
}

func containsBang(s string) bool {
	for i := 0; i < len(s); i++ {
		if s[i] == '!' {
			return true
		}
	}
	return false
}
