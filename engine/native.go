package main

// Native replay: the harnesses are compiled with the real package (go test
// -overlay) and run on concrete vectors taken from solver models.

import (
	"encoding/hex"
	"encoding/json"
	"fmt"
	"os"
	"os/exec"
	"path/filepath"
	"sort"
	"strings"
	"time"

	"golang.org/x/tools/go/ssa"
)

type Vector struct {
	Harness string            `json:"harness"`
	ID      string            `json:"id"`
	Strings map[string]string `json:"strings"`
	Bools   map[string]bool   `json:"bools"`
	Ints    map[string]string `json:"ints"`
	Choices map[string]int    `json:"choices"`
	Tier    int               `json:"tier"`
}

type NativeAssert struct {
	Label   string `json:"label"`
	OK      bool   `json:"ok"`
	Known   bool   `json:"known"`
	Finding string `json:"finding"`
}

type NativeObs struct {
	Label string `json:"label"`
	Hex   string `json:"hex"`
}

type NativeRun struct {
	ID        string         `json:"id"`
	Harness   string         `json:"harness"`
	Asserts   []NativeAssert `json:"asserts"`
	Obs       []NativeObs    `json:"obs"`
	Panic     string         `json:"panic"`
	AssumeOff bool           `json:"assume_failed"`
	Missing   []string       `json:"missing"`
}

func vectorFromModel(harness, id string, model map[string]string, choices map[string]int, tier int) Vector {
	v := Vector{Harness: harness, ID: id, Strings: map[string]string{}, Bools: map[string]bool{}, Ints: map[string]string{}, Choices: map[string]int{}, Tier: tier}
	for n, val := range model {
		if strings.HasPrefix(n, "env:") {
			continue
		}
		switch {
		case strings.HasPrefix(val, "s:"):
			v.Strings[n] = hex.EncodeToString([]byte(val[2:]))
		case val == "true" || val == "false":
			v.Bools[n] = val == "true"
		default:
			v.Ints[n] = val
		}
	}
	for k, c := range choices {
		v.Choices[k] = c
	}
	return v
}

func replayTestSource(l *Loaded) string { return replayTestSourceFor(l.jen, "jen") }

func replayTestSourceFor(pk *ssa.Package, pkgName string) string {
	var names []string
	for name, m := range pk.Members {
		if f, ok := m.(*ssa.Function); ok && strings.HasPrefix(name, "H_") && f.Signature.Params().Len() == 0 {
			names = append(names, name)
		}
	}
	sort.Strings(names)
	var sb strings.Builder
	sb.WriteString("package " + pkgName + "\n")
	sb.WriteString(`
import (
	"encoding/json"
	"fmt"
	"os"
	"testing"
)

var verifHarnessTab = map[string]func(){
`)
	for _, n := range names {
		fmt.Fprintf(&sb, "\t%q: %s,\n", n, n)
	}
	sb.WriteString(`}

func verifRunOne(v *verifVector) (out *verifRun) {
	out = &verifRun{ID: v.ID, Harness: v.Harness}
	verifVec = v
	verifOut = out
	defer func() {
		if r := recover(); r != nil {
			if _, ok := r.(verifAssumeFailed); ok {
				out.AssumeOff = true
			} else {
				out.Panic = fmt.Sprint(r)
				if out.Panic == "" {
					out.Panic = "panic"
				}
			}
		}
	}()
	h, ok := verifHarnessTab[v.Harness]
	if !ok {
		out.Panic = "no such harness"
		return
	}
	h()
	return
}

func TestVerifReplay(t *testing.T) {
	data, err := os.ReadFile(os.Getenv("VERIF_VECTORS"))
	if err != nil {
		t.Skip("no vectors")
	}
	var vs []verifVector
	if err := json.Unmarshal(data, &vs); err != nil {
		t.Fatal(err)
	}
	var outs []*verifRun
	for i := range vs {
		reps := 1
		if r := os.Getenv("VERIF_REPEAT"); r != "" {
			fmt.Sscan(r, &reps)
		}
		for k := 0; k < reps; k++ {
			outs = append(outs, verifRunOne(&vs[i]))
		}
	}
	b, _ := json.Marshal(outs)
	if err := os.WriteFile(os.Getenv("VERIF_OUT"), b, 0644); err != nil {
		t.Fatal(err)
	}
	if os.Getenv("VERIF_REPLAY_STRICT") != "" {
		for _, o := range outs {
			for _, a := range o.Asserts {
				if !a.OK {
					t.Errorf("assertion %q failed in %s", a.Label, o.Harness)
				}
			}
			if o.Panic != "" {
				t.Errorf("panic in %s: %s", o.Harness, o.Panic)
			}
		}
	}
}
`)
	return sb.String()
}

// nativeRun executes the vectors natively; repeat>1 re-runs each vector (map-order findings).
func nativeRun(l *Loaded, vectors []Vector, repeat int) (map[string][]*NativeRun, string, error) {
	var jenV, genV []Vector
	for _, v := range vectors {
		if l.gen != nil && l.gen.Func(v.Harness) != nil {
			genV = append(genV, v)
		} else {
			jenV = append(jenV, v)
		}
	}
	res, out, err := nativeRunPkg(l, jenV, repeat, "jen", l.jen, l.overlay)
	if err != nil {
		return res, out, err
	}
	if len(genV) > 0 {
		r2, o2, err2 := nativeRunPkg(l, genV, repeat, "gennames", l.gen, l.genOv)
		if err2 != nil {
			return res, out + o2, err2
		}
		for k, v := range r2 {
			res[k] = v
		}
		out += o2
	}
	return res, out, nil
}

func nativeRunPkg(l *Loaded, vectors []Vector, repeat int, dir string, pk *ssa.Package, overlay map[string]string) (map[string][]*NativeRun, string, error) {
	if len(vectors) == 0 {
		return map[string][]*NativeRun{}, "", nil
	}
	tmp, err := os.MkdirTemp("", "gosmt-replay-")
	if err != nil {
		return nil, "", err
	}
	defer os.RemoveAll(tmp)
	testSrc := filepath.Join(tmp, "replay_test.go")
	pkgName := "jen"
	if dir != "jen" {
		pkgName = "main"
	}
	if err := os.WriteFile(testSrc, []byte(replayTestSourceFor(pk, pkgName)), 0644); err != nil {
		return nil, "", err
	}
	repl := map[string]string{filepath.Join(repoDir, dir, "zz_verif_replay_test.go"): testSrc}
	for virt, real := range overlay {
		repl[virt] = real
	}
	if dir != "jen" {
		// the gennames package imports jen: its overlay must not contain jen harness files, and jen itself builds as is
	}
	ovb, _ := json.Marshal(map[string]interface{}{"Replace": repl})
	ovFile := filepath.Join(tmp, "overlay.json")
	os.WriteFile(ovFile, ovb, 0644)
	vb, _ := json.Marshal(vectors)
	vecFile := filepath.Join(tmp, "vectors.json")
	os.WriteFile(vecFile, vb, 0644)
	outFile := filepath.Join(tmp, "out.json")
	cmd := exec.Command("go", "test", "-vet=off", "-count=1", "-overlay", ovFile, "-run", "^TestVerifReplay$", "-timeout", "20m", "./"+dir)
	cmd.Dir = repoDir
	cmd.Env = append(os.Environ(), "GOFLAGS=-mod=mod", "GOPROXY=off", "GOSUMDB=off", "GOTOOLCHAIN=local",
		"VERIF_VECTORS="+vecFile, "VERIF_OUT="+outFile, fmt.Sprintf("VERIF_REPEAT=%d", repeat))
	t0 := time.Now()
	outb, err := cmd.CombinedOutput()
	_ = t0
	data, rerr := os.ReadFile(outFile)
	if rerr != nil {
		return nil, string(outb), fmt.Errorf("native replay produced no output: %v\n%s", err, outb)
	}
	var runs []*NativeRun
	if err := json.Unmarshal(data, &runs); err != nil {
		return nil, string(outb), err
	}
	res := map[string][]*NativeRun{}
	for _, r := range runs {
		res[r.ID] = append(res[r.ID], r)
	}
	return res, string(outb), nil
}
