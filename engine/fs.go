package main

// A small model of the file system for File.Save (C10): every file is (exists, content);
// os.WriteFile, os.OpenFile/Create + (*os.File).Write/WriteString/Truncate/Close/Sync, os.Rename,
// os.Remove, os.ReadFile and os.CreateTemp update or read it. Every operation may fail (a free
// boolean per call, registered as an environment input); a failed write leaves arbitrary content
// behind. Files are identified by their name term; names that are different terms are taken to
// be different files (the harness uses one target name; temporary names are fresh symbols).

import (
	"fmt"
)

type fsEntry struct {
	name    *Term
	exists  *Term
	content *Term
	perm    *Term // mode given when this run created the file; nil otherwise
}

type fsHandle struct {
	e      *fsEntry
	off    *Term
	app    bool
	closed bool
}

const (
	fsO_WRONLY = 0x1
	fsO_RDWR   = 0x2
	fsO_APPEND = 0x400
	fsO_CREATE = 0x40
	fsO_EXCL   = 0x80
	fsO_TRUNC  = 0x200
)

func (p *Path) fsLookup(name *Term) *fsEntry {
	for _, e := range p.fs {
		if e.name == name {
			return e
		}
	}
	k := len(p.fs)
	e := &fsEntry{name: name, exists: p.freshVar("fs_exists", SBool), content: p.freshVar("fs_content", SStr)}
	p.registerNondet(fmt.Sprintf("env:fs_exists#%d", k), e.exists)
	p.registerNondet(fmt.Sprintf("env:fs_content#%d", k), e.content)
	p.fs = append(p.fs, e)
	return e
}

// fsFails: the environment decides whether this operation fails.
func (p *Path) fsFails(op string) bool {
	p.fsOps++
	fail := p.freshVar(op+"_fails", SBool)
	p.registerNondet(fmt.Sprintf("env:%s#%d", op, p.fsOps), fail)
	if p.branch(fail, op+"-fails") {
		// a fault of the environment: cannot be injected into the native replay
		p.fsFailed = true
		p.ambient = true
		return true
	}
	return false
}

func (p *Path) fsHandleOf(v Value) *fsHandle {
	ptr, ok := v.(Ptr)
	if !ok || ptr.p == nil {
		p.goPanic("nil *os.File")
	}
	h, ok := (*ptr.p).(*fsHandle)
	if !ok {
		p.unsupported("*os.File that was not opened through the modelled file system")
	}
	return h
}

func (p *Path) fsOpen(name *Term, flag int64, perm *Term, op string) Value {
	e := p.fsLookup(name)
	p.effects = append(p.effects, op)
	p.effectArgs = append(p.effectArgs, []*Term{name, mkInt(flag), perm})
	p.effectFail = append(p.effectFail, tFalse)
	if p.fsFails(op) {
		p.effectFail[len(p.effectFail)-1] = tTrue
		return Tuple{Ptr{}, p.newErr(mkStr(op+" failed"), op)}
	}
	if flag&fsO_CREATE == 0 {
		if !p.branch(e.exists, op+"-exists") {
			return Tuple{Ptr{}, p.newErr(mkStr("no such file"), op)}
		}
	} else {
		if flag&fsO_EXCL != 0 && p.branch(e.exists, op+"-exists") {
			return Tuple{Ptr{}, p.newErr(mkStr("file exists"), op)}
		}
		// a file that did not exist is created empty with the given mode
		e.content = mkIte(e.exists, e.content, mkStr(""))
		if e.perm == nil {
			e.perm = perm
		}
		e.exists = tTrue
	}
	if flag&fsO_TRUNC != 0 {
		e.content = mkStr("")
	}
	c := new(Value)
	*c = &fsHandle{e: e, off: mkInt(0), app: flag&fsO_APPEND != 0}
	return Tuple{Ptr{c}, nilErr}
}

func (p *Path) fsWrite(h *fsHandle, data *Term, op string) Value {
	if h.closed {
		return Tuple{mkInt(0), p.newErr(mkStr("file already closed"), op)}
	}
	if p.fsFails(op) {
		// a failed write may have written any part of the data
		h.e.content = p.freshVar("fs_partial", SStr)
		return Tuple{mkInt(0), p.newErr(mkStr(op+" failed"), op)}
	}
	n := mkLen(data)
	if h.app {
		h.e.content = mkConcat(h.e.content, data)
	} else {
		old := h.e.content
		end := mkAdd(h.off, n)
		tail := mkSubstr(old, end, mkSub(mkLen(old), end)) // empty when the old content is shorter
		h.e.content = mkConcat(mkSubstr(old, mkInt(0), h.off), data, tail)
		h.off = end
	}
	return Tuple{n, nilErr}
}

func (p *Path) fsStub(name string, args []Value) (Value, bool) {
	errOnly := func(op string) Value {
		if p.fsFails(op) {
			return p.newErr(mkStr(op+" failed"), op)
		}
		return nilErr
	}
	switch name {
	case "os.OpenFile":
		fl, ok := args[1].(*Term)
		if !ok || !fl.IsConst() {
			p.unsupported("os.OpenFile with a non-constant flag")
		}
		return p.fsOpen(strArg(args[0]), fl.Int64(), args[2].(*Term), "os.OpenFile"), true
	case "os.Create":
		return p.fsOpen(strArg(args[0]), fsO_RDWR|fsO_CREATE|fsO_TRUNC, mkInt(0666), "os.Create"), true
	case "os.CreateTemp":
		nm := p.freshVar("fs_tempname", SStr)
		p.registerNondet(fmt.Sprintf("env:tempname#%d", len(p.fs)), nm)
		for _, e := range p.fs {
			p.assume(mkNot(mkEq(nm, e.name)))
		}
		e := p.fsLookup(nm)
		if p.fsFails("os.CreateTemp") {
			return Tuple{Ptr{}, p.newErr(mkStr("os.CreateTemp failed"), "os.CreateTemp")}, true
		}
		e.exists, e.content, e.perm = tTrue, mkStr(""), mkInt(0600)
		c := new(Value)
		*c = &fsHandle{e: e, off: mkInt(0)}
		return Tuple{Ptr{c}, nilErr}, true
	case "(*os.File).Write":
		return p.fsWrite(p.fsHandleOf(args[0]), strArg(args[1]), "File.Write"), true
	case "(*os.File).WriteString":
		return p.fsWrite(p.fsHandleOf(args[0]), strArg(args[1]), "File.Write"), true
	case "(*os.File).Close":
		h := p.fsHandleOf(args[0])
		if h.closed {
			return p.newErr(mkStr("file already closed"), "File.Close"), true
		}
		h.closed = true
		return errOnly("File.Close"), true
	case "(*os.File).Sync":
		p.fsHandleOf(args[0])
		return errOnly("File.Sync"), true
	case "(*os.File).Chmod":
		h := p.fsHandleOf(args[0])
		if p.fsFails("File.Chmod") {
			return p.newErr(mkStr("File.Chmod failed"), "File.Chmod"), true
		}
		if m, ok := args[1].(*Term); ok {
			h.e.perm = m
		}
		return nilErr, true
	case "(*os.File).Name":
		return p.fsHandleOf(args[0]).e.name, true
	case "(*os.File).Truncate":
		h := p.fsHandleOf(args[0])
		sz, ok := args[1].(*Term)
		if !ok {
			return nil, false
		}
		if p.fsFails("File.Truncate") {
			return p.newErr(mkStr("File.Truncate failed"), "File.Truncate"), true
		}
		if sz.IsConst() && sz.Int64() == 0 {
			h.e.content = mkStr("")
		} else {
			h.e.content = mkSubstr(h.e.content, mkInt(0), sz) // growing with NULs is not modelled
		}
		return nilErr, true
	case "os.Rename":
		from, to := p.fsLookup(strArg(args[0])), p.fsLookup(strArg(args[1]))
		if p.fsFails("os.Rename") {
			return p.newErr(mkStr("os.Rename failed"), "os.Rename"), true
		}
		if !p.branch(from.exists, "os.Rename-exists") {
			return p.newErr(mkStr("no such file"), "os.Rename"), true
		}
		to.exists, to.content, to.perm = tTrue, from.content, from.perm
		from.exists = tFalse
		return nilErr, true
	case "os.Remove":
		e := p.fsLookup(strArg(args[0]))
		if p.fsFails("os.Remove") {
			return p.newErr(mkStr("os.Remove failed"), "os.Remove"), true
		}
		if !p.branch(e.exists, "os.Remove-exists") {
			return p.newErr(mkStr("no such file"), "os.Remove"), true
		}
		e.exists = tFalse
		return nilErr, true
	case "os.ReadFile":
		e := p.fsLookup(strArg(args[0]))
		if p.fsFails("os.ReadFile") {
			return Tuple{BytesOf{s: mkStr(""), nilS: true}, p.newErr(mkStr("os.ReadFile failed"), "os.ReadFile")}, true
		}
		if !p.branch(e.exists, "os.ReadFile-exists") {
			return Tuple{BytesOf{s: mkStr(""), nilS: true}, p.newErr(mkStr("no such file"), "os.ReadFile")}, true
		}
		return Tuple{BytesOf{s: e.content}, nilErr}, true
	case "os.MkdirAll", "os.Mkdir", "os.Chmod":
		return errOnly(name), true
	}
	return nil, false
}
