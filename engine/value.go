package main

// Runtime values of the symbolic interpreter. Scalars are *Term (constants or
// symbolic); everything with identity (pointers, slices, maps, closures,
// interfaces' dynamic types) is concrete.

import (
	"fmt"
	"go/types"

	"golang.org/x/tools/go/ssa"
)

type Value interface{}

// Ptr is a pointer to a memory cell (*Value). nil pointer = Ptr{nil}.
type Ptr struct{ p *Value }

type Struct []Value
type Array []Value

// Slice: data has len=len and cap=cap (Go slice semantics give aliasing for free).
type Slice struct {
	data []Value
	nilS bool
}

// BytesOf is an immutable []byte view of a string term.
type BytesOf struct {
	s    *Term
	nilS bool
}

// Iface is a non-nil interface value when t != nil.
type Iface struct {
	t types.Type
	v Value
}

type MapEntry struct {
	k Value
	v Value
}

type Map struct {
	kt, vt  types.Type
	entries []*MapEntry
	serial  int
	bigConst bool // many constant string keys: symbolic lookups use a defined function
	name    string
}

type MapRef struct{ m *Map } // nil map = MapRef{nil}

type Closure struct {
	fn  *ssa.Function
	env []Value
}

type FuncVal struct{ fn *ssa.Function } // plain function value; nil func = FuncVal{nil}

type Tuple []Value

type StrIter struct {
	s   string
	pos int
}

type MapIter struct {
	m     *Map
	order []*MapEntry // remaining entries snapshot
	done  map[*MapEntry]bool
}

// ErrObj models an error created by a stub (fmt.Errorf, format.Source, os.*).
type ErrObj struct {
	msg    *Term
	origin string
	id     int
}

// FloatVal is an opaque float/complex value identified by a symbolic "bits" Int
// (or a constant Go value).
type FloatVal struct {
	kind  types.BasicKind // Float32, Float64, Complex64, Complex128
	bits  *Term           // symbolic identity (Int) or nil when constant
	bits2 *Term           // imaginary part for complex
	cf    float64
	cc    complex128
	isC   bool
}

func isNilPtr(v Value) bool { p, ok := v.(Ptr); return ok && p.p == nil }

func zero(t types.Type) Value {
	switch tt := t.Underlying().(type) {
	case *types.Basic:
		switch {
		case tt.Info()&types.IsBoolean != 0:
			return tFalse
		case tt.Info()&types.IsInteger != 0:
			return mkInt(0)
		case tt.Info()&types.IsString != 0:
			return mkStr("")
		case tt.Info()&types.IsFloat != 0:
			return FloatVal{kind: tt.Kind(), isC: true}
		case tt.Info()&types.IsComplex != 0:
			return FloatVal{kind: tt.Kind(), isC: true}
		case tt.Kind() == types.UnsafePointer:
			return Ptr{}
		case tt.Kind() == types.UntypedNil:
			return Iface{}
		}
	case *types.Pointer:
		return Ptr{}
	case *types.Struct:
		s := make(Struct, tt.NumFields())
		for i := range s {
			s[i] = zero(tt.Field(i).Type())
		}
		return s
	case *types.Array:
		a := make(Array, tt.Len())
		for i := range a {
			a[i] = zero(tt.Elem())
		}
		return a
	case *types.Slice:
		if b, ok := tt.Elem().Underlying().(*types.Basic); ok && b.Kind() == types.Uint8 {
			return BytesOf{s: mkStr(""), nilS: true}
		}
		return Slice{nilS: true}
	case *types.Interface:
		return Iface{}
	case *types.Map:
		return MapRef{}
	case *types.Signature:
		return FuncVal{}
	case *types.Chan:
		return Ptr{}
	case *types.Tuple:
		tp := make(Tuple, tt.Len())
		for i := range tp {
			tp[i] = zero(tt.At(i).Type())
		}
		return tp
	}
	panic(fmt.Sprintf("zero: unsupported type %v", t))
}

func copyVal(v Value) Value {
	switch x := v.(type) {
	case Struct:
		n := make(Struct, len(x))
		for i := range x {
			n[i] = copyVal(x[i])
		}
		return n
	case Array:
		n := make(Array, len(x))
		for i := range x {
			n[i] = copyVal(x[i])
		}
		return n
	}
	return v
}

func sortOfBasic(b *types.Basic) Sort {
	switch {
	case b.Info()&types.IsBoolean != 0:
		return SBool
	case b.Info()&types.IsString != 0:
		return SStr
	}
	return SInt
}
