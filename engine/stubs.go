package main

// Standard-library stubs: exact SMT definitions where possible, uninterpreted
// functions with instantiated contract axioms otherwise (DESIGN.md 3.6).

import (
	"fmt"
	"go/format"
	"go/types"
	"math"
	"math/big"
	"regexp"
	"strconv"
	"strings"
	"sync"
	"unicode"
	"unicode/utf8"

	"golang.org/x/tools/go/ssa"
)

var stubErrType = types.NewPointer(types.NewNamed(types.NewTypeName(0, nil, "stubError", nil), types.NewStruct(nil, nil), nil))

func (p *Path) newErr(msg *Term, origin string) Iface {
	p.errSerial++
	return Iface{t: stubErrType, v: &ErrObj{msg: msg, origin: origin, id: p.errSerial}}
}

var stubUsedMu sync.Mutex
var stubUsed = map[string]bool{}

func noteStub(n string) {
	stubUsedMu.Lock()
	stubUsed[n] = true
	stubUsedMu.Unlock()
}

func (p *Path) stub(fn *ssa.Function, args []Value) (Value, bool) {
	if fn.Pkg != nil && p.ex.pkgs[fn.Pkg] {
		return nil, false
	}
	if fn.Pkg != nil && fn.Name() == "init" {
		return nil, true // initialisers of packages outside the encoding are not run
	}
	name := fn.String()
	r, ok := p.stubByName(name, fn, args)
	if !ok {
		r, ok = p.extCall(name, args)
	}
	if !ok {
		r, ok = p.floatStub(name, args)
	}
	if !ok {
		r, ok = p.fsStub(name, args)
	}
	if ok {
		noteStub(name)
	}
	return r, ok
}

func strArg(v Value) *Term {
	switch x := v.(type) {
	case *Term:
		return x
	case BytesOf:
		return x.s
	case Slice:
		if t, ok := byteSliceTerm(x); ok {
			return t
		}
	}
	panic(fmt.Sprintf("expected string-like, got %T", v))
}

func (p *Path) bufPtr(v Value) *Value {
	ptr, ok := v.(Ptr)
	if !ok || ptr.p == nil {
		p.goPanic("nil *bytes.Buffer")
	}
	return ptr.p
}

func (p *Path) bufAppend(c *Value, s *Term) {
	cur, ok := p.bufs[c]
	if !ok {
		cur = mkStr("")
	}
	p.bufs[c] = mkConcat(cur, s)
}

func (p *Path) bufGet(c *Value) *Term {
	if cur, ok := p.bufs[c]; ok {
		return cur
	}
	return mkStr("")
}

var nilErr = Iface{}

func (p *Path) stubByName(name string, fn *ssa.Function, args []Value) (Value, bool) {
	switch name {
	case "(*strings.Builder).WriteString", "(*strings.Builder).Write":
		s := strArg(args[1])
		p.bufAppend(p.bufPtr(args[0]), s)
		return Tuple{mkLen(s), nilErr}, true
	case "(*strings.Builder).WriteByte", "(*bytes.Buffer).WriteByte":
		b, ok := args[1].(*Term)
		if !ok || !b.IsConst() {
			p.unsupported("WriteByte of a symbolic byte")
		}
		p.bufAppend(p.bufPtr(args[0]), mkStr(string([]byte{byte(b.Int64())})))
		return nilErr, true
	case "(*strings.Builder).WriteRune", "(*bytes.Buffer).WriteRune":
		r, ok := args[1].(*Term)
		if !ok || !r.IsConst() {
			p.unsupported("WriteRune of a symbolic rune")
		}
		st := string(rune(r.Int64()))
		p.bufAppend(p.bufPtr(args[0]), mkStr(st))
		return Tuple{mkInt(int64(len(st))), nilErr}, true
	case "(*strings.Builder).String":
		return p.bufGet(p.bufPtr(args[0])), true
	case "(*strings.Builder).Len":
		return mkLen(p.bufGet(p.bufPtr(args[0]))), true
	case "(*strings.Builder).Reset":
		p.bufs[p.bufPtr(args[0])] = mkStr("")
		return nil, true
	case "(*strings.Builder).Grow", "(*bytes.Buffer).Grow":
		return nil, true
	case "bytes.NewBufferString":
		c := new(Value)
		*c = zero(fn.Signature.Results().At(0).Type().(*types.Pointer).Elem())
		p.bufs[c] = strArg(args[0])
		return Ptr{c}, true
	case "strings.TrimSuffix":
		s, suf := args[0].(*Term), args[1].(*Term)
		if s.IsConst() && suf.IsConst() {
			return mkStr(strings.TrimSuffix(s.S, suf.S)), true
		}
		if p.branch(mkSuffixOf(suf, s), "trimsuffix") {
			return p.substr(s, mkInt(0), mkSub(mkLen(s), mkLen(suf))), true
		}
		return s, true
	case "strings.TrimPrefix":
		s, pre := args[0].(*Term), args[1].(*Term)
		if s.IsConst() && pre.IsConst() {
			return mkStr(strings.TrimPrefix(s.S, pre.S)), true
		}
		if p.branch(mkPrefixOf(pre, s), "trimprefix") {
			return p.substr(s, mkLen(pre), mkSub(mkLen(s), mkLen(pre))), true
		}
		return s, true
	case "strings.Join":
		sl, ok := args[0].(Slice)
		if !ok {
			return mkStr(""), true
		}
		var parts []*Term
		for i, x := range sl.data {
			if i > 0 {
				parts = append(parts, args[1].(*Term))
			}
			parts = append(parts, x.(*Term))
		}
		return mkConcat(parts...), true
	case "(*bytes.Buffer).Write", "(*bytes.Buffer).WriteString":
		s := strArg(args[1])
		p.bufAppend(p.bufPtr(args[0]), s)
		return Tuple{mkLen(s), nilErr}, true
	case "(*bytes.Buffer).String":
		if isNilPtr(args[0]) {
			return mkStr("<nil>"), true
		}
		return p.bufGet(p.bufPtr(args[0])), true
	case "(*bytes.Buffer).Bytes":
		return BytesOf{s: p.bufGet(p.bufPtr(args[0]))}, true
	case "(*bytes.Buffer).Len":
		return mkLen(p.bufGet(p.bufPtr(args[0]))), true
	case "(*bytes.Buffer).WriteTo":
		c := p.bufPtr(args[0])
		content := p.bufGet(c)
		r := p.writeTo(args[1], content)
		tp := r.(Tuple)
		if e, ok := tp[1].(Iface); ok && e.t == nil {
			p.bufs[c] = mkStr("")
		}
		return Tuple{tp[0], tp[1]}, true
	case "strconv.FormatBool":
		return mkIte(args[0].(*Term), mkStr("true"), mkStr("false")), true
	case "io.WriteString":
		return p.writeTo(args[0], args[1].(*Term)), true
	case "(*bytes.Buffer).Reset":
		p.bufs[p.bufPtr(args[0])] = mkStr("")
		return nil, true
	case "(*sync.Mutex).Lock", "(*sync.Mutex).Unlock", "(*sync.RWMutex).Lock", "(*sync.RWMutex).Unlock", "(*sync.RWMutex).RLock", "(*sync.RWMutex).RUnlock":
		return nil, true
	case "(*sync.Mutex).TryLock":
		return tTrue, true
	case "(*sync.Once).Do":
		c := args[0].(Ptr).p
		if p.onceDone == nil {
			p.onceDone = map[*Value]bool{}
		}
		if !p.onceDone[c] {
			p.onceDone[c] = true
			p.noteWriteCell(c)
			p.callValue(args[1], nil)
		}
		return nil, true
	case "(*sync.Map).Load", "(*sync.Map).Store", "(*sync.Map).LoadOrStore", "(*sync.Map).Delete", "(*sync.Map).LoadAndDelete", "(*sync.Map).Range", "(*sync.Map).Swap":
		c := args[0].(Ptr).p
		if p.syncMaps == nil {
			p.syncMaps = map[*Value]*Map{}
		}
		m := p.syncMaps[c]
		if m == nil {
			p.mapSerial++
			m = &Map{serial: p.mapSerial}
			p.syncMaps[c] = m
		}
		method := strings.TrimPrefix(name, "(*sync.Map).")
		switch method {
		case "Load":
			if e := p.mapFind(m, args[1]); e != nil {
				return Tuple{copyVal(e.v), tTrue}, true
			}
			return Tuple{Iface{}, tFalse}, true
		case "Store":
			p.noteWriteCell(c)
			p.mapUpdate(m, args[1], args[2])
			return nil, true
		case "Swap":
			p.noteWriteCell(c)
			e := p.mapFind(m, args[1])
			var old Value = Iface{}
			loaded := e != nil
			if loaded {
				old = e.v
			}
			p.mapUpdate(m, args[1], args[2])
			return Tuple{old, mkBool(loaded)}, true
		case "LoadOrStore":
			if e := p.mapFind(m, args[1]); e != nil {
				return Tuple{copyVal(e.v), tTrue}, true
			}
			p.noteWriteCell(c)
			p.mapUpdate(m, args[1], args[2])
			return Tuple{args[2], tFalse}, true
		case "Delete", "LoadAndDelete":
			e := p.mapFind(m, args[1])
			if e != nil {
				p.noteWriteCell(c)
				var ne []*MapEntry
				for _, x := range m.entries {
					if x != e {
						ne = append(ne, x)
					}
				}
				m.entries = ne
			}
			if method == "Delete" {
				return nil, true
			}
			if e != nil {
				return Tuple{e.v, tTrue}, true
			}
			return Tuple{Iface{}, tFalse}, true
		case "Range":
			for _, e := range append([]*MapEntry{}, m.entries...) {
				r := p.callValue(args[1], []Value{e.k, e.v}).(*Term)
				if !p.branch(r, "syncmap-range-continue") {
					break
				}
			}
			return nil, true
		}
	case "(*sync.Pool).Get":
		c := args[0].(Ptr).p
		if p.pools == nil {
			p.pools = map[*Value][]Value{}
		}
		if l := p.pools[c]; len(l) > 0 {
			v := l[len(l)-1]
			p.pools[c] = l[:len(l)-1]
			p.noteWriteCell(c)
			return v, true
		}
		st := (*c).(Struct)
		pt := fn.Signature.Recv().Type().(*types.Pointer).Elem().Underlying().(*types.Struct)
		for i := 0; i < pt.NumFields(); i++ {
			if pt.Field(i).Name() == "New" {
				switch nf := st[i].(type) {
				case FuncVal:
					if nf.fn != nil {
						return p.callValue(nf, nil), true
					}
				case *Closure:
					return p.callValue(nf, nil), true
				}
			}
		}
		return Iface{}, true
	case "(*sync.Pool).Put":
		c := args[0].(Ptr).p
		if p.pools == nil {
			p.pools = map[*Value][]Value{}
		}
		p.pools[c] = append(p.pools[c], args[1])
		p.noteWriteCell(c)
		return nil, true
	case "sync/atomic.AddInt64", "sync/atomic.AddInt32", "sync/atomic.AddUint64", "sync/atomic.AddUint32":
		c := args[0].(Ptr).p
		p.noteWriteCell(c)
		*c = mkAdd((*c).(*Term), args[1].(*Term))
		return *c, true
	case "sync/atomic.LoadInt64", "sync/atomic.LoadInt32", "sync/atomic.LoadUint64", "sync/atomic.LoadUint32":
		return *args[0].(Ptr).p, true
	case "sync/atomic.StoreInt64", "sync/atomic.StoreInt32", "sync/atomic.StoreUint64", "sync/atomic.StoreUint32":
		c := args[0].(Ptr).p
		p.noteWriteCell(c)
		*c = args[1]
		return nil, true
	case "fmt.Sprintf":
		return p.sprintf(args[0].(*Term), args[1]), true
	case "fmt.Sprint":
		return p.sprint(args[0]), true
	case "fmt.Errorf":
		return p.newErr(p.sprintf(args[0].(*Term), args[1]), "fmt.Errorf"), true
	case "errors.New":
		return p.newErr(args[0].(*Term), "errors.New"), true
	case "fmt.Fprintf":
		s := p.sprintf(args[1].(*Term), args[2])
		return p.writeTo(args[0], s), true
	case "fmt.Fprint":
		s := p.sprint(args[1])
		return p.writeTo(args[0], s), true
	case "go/format.Source":
		p.fmtCalls++
		src := strArg(args[0])
		ok := gofmtOK(src)
		if p.branch(ok, "format.Source-ok") {
			return Tuple{BytesOf{s: gofmtOf(src)}, nilErr}, true
		}
		return Tuple{BytesOf{s: mkStr(""), nilS: true}, p.newErr(mkUF("gofmt_errmsg", SStr, src), "format.Source")}, true
	case "os.WriteFile":
		p.effects = append(p.effects, "os.WriteFile")
		p.effectArgs = append(p.effectArgs, []*Term{strArg(args[0]), strArg(args[1]), args[2].(*Term)})
		fail := p.freshVar("oswritefile_fails", SBool)
		p.registerNondet(fmt.Sprintf("env:os.WriteFile#%d", len(p.effects)), fail)
		p.effectFail = append(p.effectFail, fail)
		fe := p.fsLookup(strArg(args[0]))
		if p.branch(fail, "os.WriteFile-fails") {
			// the file may have been created, truncated or partly written
			p.fsFailed = true
			p.ambient = true
			fe.exists, fe.content = p.freshVar("fs_exists", SBool), p.freshVar("fs_partial", SStr)
			return p.newErr(mkStr("os.WriteFile failed"), "os.WriteFile"), true
		}
		if fe.perm == nil {
			fe.perm = args[2].(*Term)
		}
		fe.exists, fe.content = tTrue, strArg(args[1])
		return nilErr, true
	case "regexp.Compile":
		pat := args[0].(*Term)
		if !pat.IsConst() {
			p.unsupported("regexp.Compile of a non-constant pattern")
		}
		if _, err := regexp.Compile(pat.S); err != nil {
			return Tuple{Ptr{}, p.newErr(mkStr(err.Error()), "regexp.Compile")}, true
		}
		c := new(Value)
		*c = pat
		return Tuple{Ptr{c}, nilErr}, true
	case "os/exec.Command":
		c := new(Value)
		*c = zero(fn.Signature.Results().At(0).Type().(*types.Pointer).Elem())
		p.effects = append(p.effects, "exec.Command")
		p.effectArgs = append(p.effectArgs, []*Term{strArg(args[0])})
		p.effectFail = append(p.effectFail, tFalse)
		return Ptr{c}, true
	case "(*os/exec.Cmd).Output":
		fail := p.freshVar("command_fails", SBool)
		p.registerNondet(fmt.Sprintf("env:exec.Output#%d", p.fresh), fail)
		if p.branch(fail, "command-fails") {
			return Tuple{BytesOf{s: mkStr(""), nilS: true}, p.newErr(mkStr("exit status 1"), "exec")}, true
		}
		out := p.cmdOutput
		if out == nil {
			out = p.freshVar("command_output", SStr)
		}
		return Tuple{BytesOf{s: out}, nilErr}, true
	case "os.UserHomeDir":
		return Tuple{p.freshVar("home", SStr), nilErr}, true
	case "path/filepath.Join":
		sl, ok := args[0].(Slice)
		if !ok {
			return mkStr(""), true
		}
		var parts []*Term
		for i, x := range sl.data {
			if i > 0 {
				parts = append(parts, mkStr("/"))
			}
			parts = append(parts, x.(*Term))
		}
		return mkConcat(parts...), true // approximation: no cleaning (only used to set a working directory)
	case "strings.TrimSpace":
		if r, ok := p.trimSpace(args[0].(*Term)); ok {
			return r, true
		}
		return nil, false
	case "strings.Split":
		if r, ok := p.splitString(args[0].(*Term), args[1].(*Term)); ok {
			return r, true
		}
		p.unsupported("strings.Split of a string whose fields are not known to be free of the separator")
	case "regexp.MustCompile":
		pat := args[0].(*Term)
		if !pat.IsConst() {
			p.unsupported("regexp.MustCompile of a non-constant pattern")
		}
		c := new(Value)
		*c = pat
		return Ptr{c}, true
	case "(*regexp.Regexp).ReplaceAllString":
		pat := (*args[0].(Ptr).p).(*Term).S
		return p.regexpReplace(pat, args[1].(*Term), args[2].(*Term)), true
	case "(*regexp.Regexp).MatchString", "(*regexp.Regexp).FindString":
		pat := (*args[0].(Ptr).p).(*Term).S
		str := args[1].(*Term)
		method := strings.TrimPrefix(name, "(*regexp.Regexp).")
		re, err := regexp.Compile(pat)
		if err != nil {
			p.goPanic("regexp: Compile(%q): %v", pat, err)
		}
		if str.IsConst() {
			if method == "MatchString" {
				return mkBool(re.MatchString(str.S)), true
			}
			return mkStr(re.FindString(str.S)), true
		}
		if method == "MatchString" && (pat == "" || pat == ".*" || pat == "^.*" || pat == "(?s).*") {
			return tTrue, true // an unanchored pattern that matches the empty string matches everything
		}
		uf := registerRxMethod(method, pat, re)
		if method == "MatchString" {
			return mkUF(uf, SBool, str), true
		}
		return mkUF(uf, SStr, str), true
	case "regexp.MatchString":
		p.unsupported("regexp.MatchString")
	case "sort.Strings":
		p.sortStrings(args[0].(Slice))
		return nil, true
	case "sort.Slice", "sort.SliceStable":
		ifc, ok := args[0].(Iface)
		if !ok {
			p.unsupported("sort.Slice of %T", args[0])
		}
		sl, ok := ifc.v.(Slice)
		if !ok {
			p.unsupported("sort.Slice of %T", ifc.v)
		}
		d := sl.data
		for i := 1; i < len(d); i++ {
			for j := i; j > 0; j-- {
				r := p.callValue(args[1], []Value{mkInt(int64(j)), mkInt(int64(j - 1))}).(*Term)
				if p.branch(r, "sort-less") {
					d[j-1], d[j] = d[j], d[j-1]
				} else {
					break
				}
			}
		}
		return nil, true
	case "strconv.Quote":
		return goquote(args[0].(*Term)), true
	case "strconv.QuoteRune":
		return goquoterune(args[0].(*Term)), true
	case "strconv.CanBackquote":
		return canbq(args[0].(*Term)), true
	case "strconv.Itoa":
		return itoa(args[0].(*Term)), true
	case "strings.Contains":
		return mkContains(args[0].(*Term), args[1].(*Term)), true
	case "bytes.Equal":
		return mkEq(strArg(args[0]), strArg(args[1])), true
	case "bytes.HasPrefix":
		return mkPrefixOf(strArg(args[1]), strArg(args[0])), true
	case "bytes.HasSuffix":
		return mkSuffixOf(strArg(args[1]), strArg(args[0])), true
	case "bytes.Contains":
		return mkContains(strArg(args[0]), strArg(args[1])), true
	case "strings.ContainsAny":
		str, chars := args[0].(*Term), args[1].(*Term)
		if chars.IsConst() {
			if str.IsConst() {
				return mkBool(strings.ContainsAny(str.S, chars.S)), true
			}
			ascii := true
			var set [256]bool
			for i := 0; i < len(chars.S); i++ {
				if chars.S[i] >= 0x80 {
					ascii = false
				}
				set[chars.S[i]] = true
			}
			if ascii && chars.S != "" {
				return mkInRe(str, reSeq(reAll(), reFromSet(set, false), reAll())), true
			}
			if chars.S == "" {
				return tFalse, true
			}
		}
		return nil, false
	case "strings.ContainsRune":
		str, r := args[0].(*Term), args[1].(*Term)
		if r.IsConst() && r.Int64() < 0x80 && r.Int64() >= 0 {
			return mkContains(str, mkStr(string(rune(r.Int64())))), true
		}
		return nil, false
	case "strings.HasPrefix":
		return mkPrefixOf(args[1].(*Term), args[0].(*Term)), true
	case "strings.HasSuffix":
		return mkSuffixOf(args[1].(*Term), args[0].(*Term)), true
	case "strings.LastIndex":
		return p.lastIndex(args[0].(*Term), args[1].(*Term)), true
	case "strings.ToLower":
		return tolower(args[0].(*Term)), true
	case "strings.Repeat":
		s, n := args[0].(*Term), args[1].(*Term)
		if n.IsConst() {
			var parts []*Term
			for i := int64(0); i < n.Int64(); i++ {
				parts = append(parts, s)
			}
			return mkConcat(parts...), true
		}
		p.unsupported("strings.Repeat with symbolic count")
	case "unicode.IsDigit":
		return p.isDigit(args[0].(*Term)), true
	case "unicode/utf8.DecodeRuneInString":
		return p.decodeRune(args[0].(*Term)), true
	}
	return nil, false
}

// writeTo performs w.Write([]byte(s)) on an io.Writer interface value.
func (p *Path) writeTo(w Value, s *Term) Value {
	ifc, ok := w.(Iface)
	if !ok || ifc.t == nil {
		p.goPanic("write to nil io.Writer")
	}
	if ptr, ok := ifc.t.(*types.Pointer); ok {
		if n, ok := ptr.Elem().(*types.Named); ok && n.Obj().Pkg() != nil && n.Obj().Pkg().Path() == "bytes" && n.Obj().Name() == "Buffer" {
			p.bufAppend(p.bufPtr(ifc.v), s)
			return Tuple{mkLen(s), nilErr}
		}
	}
	fn := p.ex.prog.LookupMethod(ifc.t, nil, "Write")
	if fn == nil {
		p.unsupported("no Write method on %v", ifc.t)
	}
	return p.callFunction(fn, []Value{ifc.v, BytesOf{s: s}}, nil)
}

// ---- formatting

func itoa(i *Term) *Term {
	if i.IsConst() {
		return mkStr(i.I.String())
	}
	return mkIte(mkLt(i, mkInt(0)), mkConcat(mkStr("-"), mkFromInt(mkNeg(i))), mkFromInt(i))
}

func (p *Path) fmtValue(verb byte, sharp bool, a Value) *Term {
	ifc, ok := a.(Iface)
	if !ok {
		p.unsupported("format argument %T", a)
	}
	if ifc.t == nil {
		if verb == 'T' {
			return mkStr("<nil>")
		}
		if sharp {
			return mkStr("<nil>")
		}
		return mkStr("%!" + string(verb) + "(<nil>)")
	}
	if verb == 'T' {
		return mkStr(typeString(ifc.t))
	}
	if eo, ok := ifc.v.(*ErrObj); ok {
		if verb == 's' || verb == 'v' {
			return eo.msg
		}
		p.unsupported("format verb %%%c on error", verb)
	}
	b, isBasic := ifc.t.Underlying().(*types.Basic)
	if !isBasic {
		// a type with an Error or String method
		if m := p.ex.prog.LookupMethod(ifc.t, nil, "Error"); m != nil && (verb == 's' || verb == 'v') && !sharp {
			return p.callFunction(m, []Value{ifc.v}, nil).(*Term)
		}
		p.unsupported("format verb %%%c on %v", verb, ifc.t)
	}
	switch v := ifc.v.(type) {
	case *Term:
		switch {
		case b.Info()&types.IsString != 0:
			switch {
			case verb == 's' || (verb == 'v' && !sharp):
				return v
			case verb == 'q' || (verb == 'v' && sharp):
				return goquote(v)
			}
		case b.Info()&types.IsBoolean != 0:
			if verb == 't' || verb == 'v' {
				return mkIte(v, mkStr("true"), mkStr("false"))
			}
		case b.Info()&types.IsInteger != 0:
			if verb == 'd' || (verb == 'v' && !sharp) {
				return itoa(v)
			}
			if verb == 'v' && sharp {
				if b.Info()&types.IsUnsigned != 0 {
					return gohex(v)
				}
				return itoa(v)
			}
			if verb == 'q' || verb == 'c' {
				p.unsupported("format verb %%%c on integer", verb)
			}
		}
	case FloatVal:
		if verb == 'v' && sharp {
			return fmtFloatSharpV(v)
		}
	}
	p.unsupported("format verb %%%c (sharp=%v) on %v", verb, sharp, ifc.t)
	return nil
}

func (p *Path) sprintf(format *Term, argv Value) *Term {
	if !format.IsConst() {
		p.unsupported("non-constant format string")
	}
	var args []Value
	if s, ok := argv.(Slice); ok {
		args = s.data
	}
	f := format.S
	var parts []*Term
	ai := 0
	for i := 0; i < len(f); {
		if f[i] != '%' {
			j := strings.IndexByte(f[i:], '%')
			if j < 0 {
				j = len(f) - i
			}
			parts = append(parts, mkStr(f[i:i+j]))
			i += j
			continue
		}
		i++
		if i >= len(f) {
			parts = append(parts, mkStr("%!(NOVERB)"))
			break
		}
		sharp := false
		for i < len(f) && f[i] == '#' {
			sharp = true
			i++
		}
		verb := f[i]
		i++
		if verb == '%' {
			parts = append(parts, mkStr("%"))
			continue
		}
		if !strings.ContainsRune("sdqvTt", rune(verb)) {
			p.unsupported("format verb %%%c", verb)
		}
		if ai >= len(args) {
			parts = append(parts, mkStr("%!"+string(verb)+"(MISSING)"))
			continue
		}
		parts = append(parts, p.fmtValue(verb, sharp, args[ai]))
		ai++
	}
	if ai < len(args) {
		p.unsupported("extra arguments to a format string")
	}
	return mkConcat(parts...)
}

func (p *Path) sprint(argv Value) *Term {
	s, ok := argv.(Slice)
	if !ok {
		return mkStr("")
	}
	var parts []*Term
	for i, a := range s.data {
		ifc := a.(Iface)
		isStr := false
		if ifc.t != nil {
			if b, ok := ifc.t.Underlying().(*types.Basic); ok && b.Info()&types.IsString != 0 {
				isStr = true
			}
		}
		if i > 0 && !isStr {
			// Sprint adds spaces between operands when neither is a string
			prev := s.data[i-1].(Iface)
			pb, ok := prev.t.Underlying().(*types.Basic)
			if !(ok && pb.Info()&types.IsString != 0) {
				parts = append(parts, mkStr(" "))
			}
		}
		parts = append(parts, p.fmtValue('v', false, a))
	}
	return mkConcat(parts...)
}

// ---- uninterpreted functions with contracts

func goquote(s *Term) *Term {
	if s.IsConst() {
		return mkStr(strconv.Quote(s.S))
	}
	return mkUF("goquote", SStr, s)
}

func goquoterune(r *Term) *Term {
	if r.IsConst() {
		return mkStr(strconv.QuoteRune(rune(r.Int64())))
	}
	return mkUF("goquoterune", SStr, r)
}

func canbq(s *Term) *Term {
	if s.IsConst() {
		return mkBool(strconv.CanBackquote(s.S))
	}
	return mkUF("canbq", SBool, s)
}

func gohex(v *Term) *Term {
	if v.IsConst() {
		return mkStr("0x" + v.I.Text(16))
	}
	return mkUF("gohex", SStr, v)
}

func tolower(s *Term) *Term {
	if s.IsConst() {
		return mkStr(strings.ToLower(s.S))
	}
	return mkUF("tolower", SStr, s)
}

func gofmtOK(s *Term) *Term {
	if s.IsConst() {
		_, err := format.Source([]byte(s.S))
		return mkBool(err == nil)
	}
	return mkUF("gofmt_ok", SBool, s)
}

func gofmtOf(s *Term) *Term {
	if s.IsConst() {
		b, err := format.Source([]byte(s.S))
		if err == nil {
			return mkStr(string(b))
		}
	}
	return mkUF("gofmt", SStr, s)
}

func fmtFloatSharpV(v FloatVal) *Term {
	if v.isC {
		switch v.kind {
		case types.Float32:
			return mkStr(fmt.Sprintf("%#v", float32(v.cf)))
		case types.Float64, types.UntypedFloat:
			return mkStr(fmt.Sprintf("%#v", v.cf))
		case types.Complex64:
			return mkStr(fmt.Sprintf("%#v", complex64(v.cc)))
		default:
			return mkStr(fmt.Sprintf("%#v", v.cc))
		}
	}
	switch v.kind {
	case types.Float32:
		return mkUF("fmtf32", SStr, v.bits)
	case types.Float64:
		return mkUF("fmtf64", SStr, v.bits)
	case types.Complex64:
		return mkUF("fmtc64", SStr, v.bits, v.bits2)
	default:
		return mkUF("fmtc128", SStr, v.bits, v.bits2)
	}
}

var (
	reQuoted     = mustRe(`"([^"\\\n]|\\.)*"`)
	reQuotedRune = mustRe(`'([^'\\\n]|\\.)+'`)
	reSafe       = mustRe(`[ !#-\[\]-~]*`)
	reCanBQ      = mustRe("[\\t -_a-~\\x80-\\xff]*")
	reHex        = mustRe(`0x(0|[1-9a-f][0-9a-f]*)`)
	reFloatSharp = mustRe(`-?[0-9]+(\.[0-9]+)?(e[+-][0-9][0-9]+)?`)
	reNoUpper    = mustRe(`[^A-Z]*`)
	reLowerSafe  = mustRe(`[^A-Z\x80-\xff]*`)
	reAscii      = mustRe(`[\x00-\x7f].*`)
	reStringTok  = mustRe("\"([^\"\\\\\\n]|\\\\.)*\"|`[^`]*`")
	reHasDotOrExp  = mustRe(`.*[.e].*`)
	reSignedDigits = mustRe(`-?[0-9]+`)
	reDecimalLit   = mustRe(`0|[1-9][0-9]*`)
	reOneCommentTok = mustRe(`//[^\n]*|/\*([^*]|\*+[^*/])*\*+/`)
)

func mustRe(s string) *Re {
	r, err := parseRe(s)
	if err != nil {
		panic(err)
	}
	return r
}

// ufAxioms returns the contract instances for one UF application.
func ufAxioms(u *Term) []*Term {
	if strings.HasPrefix(u.Name, "fc:") {
		return []*Term{mkPrefixOf(mkStr("("), u), mkSuffixOf(mkStr("i)"), u)}
	}
	if u.Name == "ext:strings.Index" && len(u.Args) == 2 {
		// contract of strings.Index: -1 iff absent, otherwise the position of the first occurrence
		str, sep := u.Args[0], u.Args[1]
		n := mkLen(sep)
		return []*Term{
			mkLe(mkInt(-1), u),
			mkLe(mkAdd(u, n), mkLen(str)),
			mkEq(mkEq(u, mkInt(-1)), mkNot(mkContains(str, sep))),
			mkImplies(mkLe(mkInt(0), u), mkEq(mkSubstr(str, u, n), sep)),
			mkImplies(mkAnd(mkLe(mkInt(0), u), mkLe(mkInt(1), n)), mkNot(mkContains(mkSubstr(str, mkInt(0), mkAdd(u, mkSub(n, mkInt(1)))), sep))),
		}
	}
	switch u.Name {
	case "goquote":
		s := u.Args[0]
		return []*Term{
			mkInRe(u, reQuoted),
			mkImplies(mkInRe(s, reSafe), mkEq(u, mkConcat(mkStr(`"`), s, mkStr(`"`)))),
			mkLe(mkAdd(mkLen(s), mkInt(2)), mkLen(u)),
			// strconv.Unquote inverts strconv.Quote (library contract, trusted)
			mkUF("unquote_ok", SBool, u),
			mkEq(mkUF("unquote", SStr, u), s),
		}
	case "goquoterune":
		r := u.Args[0]
		valid := mkAnd(mkLe(mkInt(0), r), mkLe(r, mkInt(0x10ffff)), mkOr(mkLt(r, mkInt(0xd800)), mkLt(mkInt(0xdfff), r)))
		return []*Term{mkInRe(u, reQuotedRune),
			// a quoted valid rune denotes that rune (strconv contract, trusted)
			mkImplies(valid, mkEq(mkUF("runelitval", SInt, u), r))}
	case "intlitval":
		t := u.Args[0]
		return []*Term{mkImplies(mkInRe(t, reDecimalLit), mkEq(u, mkApp("str.to_int", SInt, t)))}
	case "canbq":
		return []*Term{mkImplies(u, mkInRe(u.Args[0], reCanBQ))}
	case "gohex":
		return []*Term{mkInRe(u, reHex)}
	case "fmtf64":
		// fmt's %#v on a float64 is strconv's shortest 'g' formatting (library fact, refined natively like every UF)
		return []*Term{mkImplies(mkUF("f64finite", SBool, u.Args[0]), mkInRe(u, reFloatSharp)),
			mkEq(u, mkUF("ff:103:-1:64", SStr, u.Args[0]))}
	case "ff:103:-1:64":
		return []*Term{mkEq(u, mkUF("fmtf64", SStr, u.Args[0]))}
	case "fmtf32":
		return []*Term{mkImplies(mkUF("f32finite", SBool, u.Args[0]), mkInRe(u, reFloatSharp))}
	case "fmtc128", "fmtc64":
		return []*Term{mkPrefixOf(mkStr("("), u), mkSuffixOf(mkStr("i)"), u)}
	case "tolower":
		s := u.Args[0]
		return []*Term{
			mkInRe(u, reNoUpper),
			mkImplies(mkInRe(s, reLowerSafe), mkEq(u, s)),
		}
	case "lastindex":
		s, sep := u.Args[0], u.Args[1]
		n := mkLen(sep)
		none := mkAnd(mkEq(u, mkInt(-1)), mkNot(mkContains(s, sep)))
		tail := mkSubstr(s, mkAdd(u, mkInt(1)), mkSub(mkLen(s), mkAdd(u, mkInt(1))))
		found := mkAnd(mkLe(mkInt(0), u), mkLe(mkAdd(u, n), mkLen(s)),
			mkEq(mkSubstr(s, u, n), sep),
			mkNot(mkContains(mkConcat(tail), sep)))
		_ = tail
		if sep.IsConst() && len(sep.S) == 1 {
			return []*Term{mkOr(none, found)}
		}
		return []*Term{mkOr(mkEq(u, mkInt(-1)), mkAnd(mkLe(mkInt(0), u), mkLe(mkAdd(u, n), mkLen(s)), mkEq(mkSubstr(s, u, n), sep)))}
	case "galias":
		return []*Term{mkInRe(u, reLowerIdent)}
	case "utf8size":
		return []*Term{mkLe(mkInt(1), u), mkLe(u, mkInt(4)), mkLe(u, mkLen(u.Args[0]))}
	case "utf8rune":
		return []*Term{mkLe(mkInt(128), u), mkLe(u, mkInt(0x10ffff))}
	}
	if strings.HasPrefix(u.Name, "bigmap") {
		if info := bigMapInfoFor(u.Name); info != nil {
			return []*Term{mkInRe(u, info.values)}
		}
	}
	if strings.HasPrefix(u.Name, "rxrepl_") {
		info := rxInfo(u.Name)
		s := u.Args[0]
		return []*Term{
			mkInRe(u, reStar(info.keep)),
			mkImplies(mkInRe(s, reStar(info.keep)), mkEq(u, s)),
			mkLe(mkLen(u), mkLen(s)),
		}
	}
	return nil
}

// ---- regexp stub: only a single negated/positive class replaced by ""

type rxEntry struct {
	pat  string
	keep *Re // bytes that survive
	re   *regexp.Regexp
}

var (
	rxMu  sync.Mutex
	rxTab = map[string]*rxEntry{}
)

func rxInfo(name string) *rxEntry {
	rxMu.Lock()
	defer rxMu.Unlock()
	return rxTab[name]
}

func (p *Path) regexpReplace(pat string, s, repl *Term) *Term {
	if !repl.IsConst() || repl.S != "" {
		p.unsupported("regexp.ReplaceAllString with a non-empty replacement")
	}
	re, err := regexp.Compile(pat)
	if err != nil {
		p.goPanic("regexp: Compile(%q): %v", pat, err)
	}
	if s.IsConst() {
		return mkStr(re.ReplaceAllString(s.S, ""))
	}
	// supported shape: one character class over ASCII, e.g. [^a-z0-9]
	if !(strings.HasPrefix(pat, "[") && strings.HasSuffix(pat, "]") && strings.Count(pat, "[") == 1) {
		p.unsupported("regexp pattern %q is not a single character class", pat)
	}
	// determine surviving bytes natively: an ASCII byte survives iff the class does not match it.
	// Non-ASCII bytes: a negated class matches every rune (including U+FFFD for invalid bytes), so they are
	// removed; a positive ASCII class never matches them, so they survive.
	var set [256]bool
	for b := 0; b < 128; b++ {
		set[b] = !re.MatchString(string(rune(b)))
	}
	hiSurvive := !re.MatchString("é") && !re.MatchString("\xff")
	hiRemoved := re.MatchString("é") && re.MatchString("\xff") && re.MatchString("世")
	if !hiSurvive && !hiRemoved {
		p.unsupported("regexp pattern %q treats non-ASCII runes non-uniformly", pat)
	}
	for b := 128; b < 256; b++ {
		set[b] = hiSurvive
	}
	name := fmt.Sprintf("rxrepl_%x", pat)
	rxMu.Lock()
	if _, ok := rxTab[name]; !ok {
		rxTab[name] = &rxEntry{pat: pat, keep: reFromSet(set, false), re: re}
	}
	rxMu.Unlock()
	return mkUF(name, SStr, s)
}

// ---- strings.LastIndex

func (p *Path) lastIndex(s, sep *Term) *Term {
	if s.IsConst() && sep.IsConst() {
		return mkInt(int64(strings.LastIndex(s.S, sep.S)))
	}
	return mkUF("lastindex", SInt, s, sep)
}

// ---- utf8 / unicode

func (p *Path) decodeRune(s *Term) Value {
	if s.IsConst() {
		r, n := utf8.DecodeRuneInString(s.S)
		return Tuple{mkInt(int64(r)), mkInt(int64(n))}
	}
	if p.branch(mkEq(s, mkStr("")), "decoderune-empty") {
		return Tuple{mkInt(int64(utf8.RuneError)), mkInt(0)}
	}
	if p.branch(mkInRe(s, reAscii), "decoderune-ascii") {
		// s = c ++ rest with |c| = 1 (word equation; s[1:] is then rewritten to rest without a query)
		c := p.freshVar("c", SStr)
		rest := p.freshVar("rest", SStr)
		p.assume(mkEq(s, mkConcat(c, rest)))
		p.assume(mkInRe(c, reRange(0, 0x7f)))
		p.decomp[s] = append(p.decomp[s], decompEntry{a: c, b: rest, alen: 1})
		p.wdefs[c] = mkApp("str.substr", SStr, s, mkInt(0), mkInt(1))
		p.wdefs[rest] = mkApp("str.substr", SStr, s, mkInt(1), mkSub(mkLen(s), mkInt(1)))
		return Tuple{mkApp("str.to_code", SInt, c), mkInt(1)}
	}
	return Tuple{mkUF("utf8rune", SInt, s), mkUF("utf8size", SInt, s)}
}

func (p *Path) isDigit(r *Term) *Term {
	if r.IsConst() {
		return mkBool(unicode.IsDigit(rune(r.Int64())))
	}
	if r.Op == "str.to_code" && p.pcSet[mkInRe(r.Args[0], reRange(0, 0x7f)).id] {
		// the code of a one-byte ASCII string: a digit iff that byte is 0-9
		return mkInRe(r.Args[0], reRange('0', '9'))
	}
	if p.branch(mkLt(r, mkInt(128)), "isdigit-ascii") {
		return mkAnd(mkLe(mkInt('0'), r), mkLe(r, mkInt('9')))
	}
	return mkUF("isdigit", SBool, r)
}

// ---- sort.Strings: insertion sort forking on symbolic comparisons

func (p *Path) sortStrings(s Slice) {
	d := s.data
	for i := 1; i < len(d); i++ {
		for j := i; j > 0; j-- {
			a, b := d[j-1].(*Term), d[j].(*Term)
			if p.branch(mkStrLt(b, a), "sort-less") {
				d[j-1], d[j] = d[j], d[j-1]
			} else {
				break
			}
		}
	}
}

// ---- native evaluation of UFs (for counterexample refinement)

func modelStr(v string) (string, bool) {
	if strings.HasPrefix(v, "s:") {
		return v[2:], true
	}
	return "", false
}

func modelInt(v string) (*big.Int, bool) {
	return new(big.Int).SetString(v, 10)
}

func nativeUF(name string) func(args []string) (string, bool) {
	switch name {
	case "goquote":
		return func(a []string) (string, bool) {
			s, ok := modelStr(a[0])
			return "s:" + strconv.Quote(s), ok
		}
	case "goquoterune":
		return func(a []string) (string, bool) {
			i, ok := modelInt(a[0])
			if !ok || !i.IsInt64() || i.Int64() < math.MinInt32 || i.Int64() > math.MaxInt32 {
				return "", false
			}
			return "s:" + strconv.QuoteRune(rune(i.Int64())), true
		}
	case "canbq":
		return func(a []string) (string, bool) {
			s, ok := modelStr(a[0])
			return strconv.FormatBool(strconv.CanBackquote(s)), ok
		}
	case "gohex":
		return func(a []string) (string, bool) {
			i, ok := modelInt(a[0])
			if !ok || i.Sign() < 0 {
				return "", false
			}
			return "s:0x" + i.Text(16), true
		}
	case "tolower":
		return func(a []string) (string, bool) {
			s, ok := modelStr(a[0])
			return "s:" + strings.ToLower(s), ok
		}
	case "gofmt_ok":
		return func(a []string) (string, bool) {
			s, ok := modelStr(a[0])
			_, err := format.Source([]byte(s))
			return strconv.FormatBool(err == nil), ok
		}
	case "gofmt":
		return func(a []string) (string, bool) {
			s, ok := modelStr(a[0])
			b, err := format.Source([]byte(s))
			if err != nil {
				return "", false
			}
			return "s:" + string(b), ok
		}
	case "lastindex":
		return func(a []string) (string, bool) {
			s, ok1 := modelStr(a[0])
			sep, ok2 := modelStr(a[1])
			return strconv.Itoa(strings.LastIndex(s, sep)), ok1 && ok2
		}
	case "fmtf64":
		return func(a []string) (string, bool) {
			i, ok := modelInt(a[0])
			if !ok || !i.IsUint64() {
				return "", false
			}
			return "s:" + fmt.Sprintf("%#v", math.Float64frombits(i.Uint64())), true
		}
	case "f64finite":
		return func(a []string) (string, bool) {
			i, ok := modelInt(a[0])
			if !ok || !i.IsUint64() {
				return "", false
			}
			f := math.Float64frombits(i.Uint64())
			return strconv.FormatBool(!math.IsInf(f, 0) && !math.IsNaN(f)), true
		}
	case "fmtf32":
		return func(a []string) (string, bool) {
			i, ok := modelInt(a[0])
			if !ok || !i.IsUint64() || i.Uint64() > math.MaxUint32 {
				return "", false
			}
			return "s:" + fmt.Sprintf("%#v", math.Float32frombits(uint32(i.Uint64()))), true
		}
	case "f32finite":
		return func(a []string) (string, bool) {
			i, ok := modelInt(a[0])
			if !ok || !i.IsUint64() || i.Uint64() > math.MaxUint32 {
				return "", false
			}
			f := float64(math.Float32frombits(uint32(i.Uint64())))
			return strconv.FormatBool(!math.IsInf(f, 0) && !math.IsNaN(f)), true
		}
	case "fmtc128":
		return func(a []string) (string, bool) {
			r, ok1 := modelInt(a[0])
			im, ok2 := modelInt(a[1])
			if !ok1 || !ok2 || !r.IsUint64() || !im.IsUint64() {
				return "", false
			}
			return "s:" + fmt.Sprintf("%#v", complex(math.Float64frombits(r.Uint64()), math.Float64frombits(im.Uint64()))), true
		}
	case "fmtc64":
		return func(a []string) (string, bool) {
			r, ok1 := modelInt(a[0])
			im, ok2 := modelInt(a[1])
			if !ok1 || !ok2 || !r.IsUint64() || !im.IsUint64() || r.Uint64() > math.MaxUint32 || im.Uint64() > math.MaxUint32 {
				return "", false
			}
			return "s:" + fmt.Sprintf("%#v", complex(math.Float32frombits(uint32(r.Uint64())), math.Float32frombits(uint32(im.Uint64())))), true
		}
	case "utf8rune":
		return func(a []string) (string, bool) {
			s, ok := modelStr(a[0])
			r, _ := utf8.DecodeRuneInString(s)
			return strconv.Itoa(int(r)), ok
		}
	case "utf8size":
		return func(a []string) (string, bool) {
			s, ok := modelStr(a[0])
			_, n := utf8.DecodeRuneInString(s)
			return strconv.Itoa(n), ok
		}
	case "galias":
		return func(a []string) (string, bool) {
			s, ok := modelStr(a[0])
			if !ok {
				return "", false
			}
			r, ok := concreteCallString("guessAlias", s)
			return "s:" + r, ok
		}
	case "isdigit":
		return func(a []string) (string, bool) {
			i, ok := modelInt(a[0])
			if !ok || !i.IsInt64() {
				return "", false
			}
			return strconv.FormatBool(unicode.IsDigit(rune(i.Int64()))), true
		}
	}
	if strings.HasPrefix(name, "bigmap") {
		info := bigMapInfoFor(name)
		if info == nil {
			return nil
		}
		return func(a []string) (string, bool) {
			s, ok := modelStr(a[0])
			return "s:" + info.table[s], ok
		}
	}
	if strings.HasPrefix(name, "rxrepl_") {
		info := rxInfo(name)
		if info == nil {
			return nil
		}
		return func(a []string) (string, bool) {
			s, ok := modelStr(a[0])
			return "s:" + info.re.ReplaceAllString(s, ""), ok
		}
	}
	if f, ok := specNative[name]; ok {
		return f
	}
	if strings.HasPrefix(name, "ext:") {
		return extNative(name[4:])
	}
	if f := floatNativeUF(name); f != nil {
		return f
	}
	if strings.HasPrefix(name, "auto:") {
		return autoNative(name)
	}
	if strings.HasPrefix(name, "rxm:") {
		return rxMethodNative(name)
	}
	return nil
}

// ---- ground facts

var (
	gfMu    sync.Mutex
	gfTab   = map[string][]*Term{}
	gfSeen  = map[string]bool{}
	gfCount int
)

func valueTerm(v string, s Sort) *Term {
	switch s {
	case SBool:
		return mkBool(v == "true")
	case SInt:
		i, _ := new(big.Int).SetString(v, 10)
		if i == nil {
			i = new(big.Int)
		}
		return mkBig(i)
	}
	return mkStr(strings.TrimPrefix(v, "s:"))
}

// addGroundFact records app(args)=nat; returns true if it is new.
func addGroundFact(app *Term, argVals []string, nat string) bool {
	key := app.Name + "\x00" + strings.Join(argVals, "\x00")
	gfMu.Lock()
	defer gfMu.Unlock()
	if gfSeen[key] {
		return false
	}
	gfSeen[key] = true
	var args []*Term
	for i, a := range app.Args {
		args = append(args, valueTerm(argVals[i], a.Sort))
	}
	// build the application un-folded (constants must stay as an application)
	appT := intern(&Term{Op: "uf", Sort: app.Sort, Name: app.Name, Args: args})
	f := mkApp("=", SBool, appT, valueTerm(nat, app.Sort))
	gfTab[app.Name] = append(gfTab[app.Name], f)
	gfCount++
	return true
}

func groundFactsFor(name string) []*Term {
	gfMu.Lock()
	defer gfMu.Unlock()
	return append([]*Term{}, gfTab[name]...)
}

// ---- regexp methods with a constant pattern on a symbolic string: congruence-only UFs, real values natively

type rxMethod struct {
	method string
	re     *regexp.Regexp
}

var (
	rxmMu  sync.Mutex
	rxmTab = map[string]*rxMethod{}
)

func registerRxMethod(method, pat string, re *regexp.Regexp) string {
	name := fmt.Sprintf("rxm:%s:%x", method, pat)
	rxmMu.Lock()
	rxmTab[name] = &rxMethod{method: method, re: re}
	rxmMu.Unlock()
	return name
}

func rxMethodNative(name string) func(args []string) (string, bool) {
	rxmMu.Lock()
	m := rxmTab[name]
	rxmMu.Unlock()
	if m == nil {
		return nil
	}
	return func(a []string) (string, bool) {
		s, ok := modelStr(a[0])
		if !ok {
			return "", false
		}
		if m.method == "MatchString" {
			return strconv.FormatBool(m.re.MatchString(s)), true
		}
		return "s:" + m.re.FindString(s), true
	}
}

// ---- strings.TrimSpace / strings.Split on structured symbolic strings
// Exact when the string is a concatenation of constants and variables known (by an assumption
// in the path condition) to be non-empty and free of white space.

var reNoSpaceField = mustRe(`[^ \n\t\r]+`)

func (p *Path) knownField(t *Term) bool {
	return !t.IsConst() && p.pcSet[mkInRe(t, reNoSpaceField).id]
}

func isSpaceByte(b byte) bool { return b == ' ' || b == '\n' || b == '\t' || b == '\r' || b == '\v' || b == '\f' }

func (p *Path) trimSpace(s *Term) (*Term, bool) {
	if s.IsConst() {
		return mkStr(strings.TrimSpace(s.S)), true
	}
	parts := append([]*Term{}, concatParts(s)...)
	for len(parts) > 0 {
		l := parts[len(parts)-1]
		if !l.IsConst() {
			break
		}
		t := strings.TrimRight(l.S, " \n\t\r\v\f")
		if t == "" {
			parts = parts[:len(parts)-1]
			continue
		}
		parts[len(parts)-1] = mkStr(t)
		break
	}
	for len(parts) > 0 {
		f := parts[0]
		if !f.IsConst() {
			break
		}
		t := strings.TrimLeft(f.S, " \n\t\r\v\f")
		if t == "" {
			parts = parts[1:]
			continue
		}
		parts[0] = mkStr(t)
		break
	}
	if len(parts) == 0 {
		return mkStr(""), true
	}
	first, last := parts[0], parts[len(parts)-1]
	if !(first.IsConst() || p.knownField(first)) || !(last.IsConst() || p.knownField(last)) {
		return nil, false
	}
	return mkConcat(parts...), true
}

func (p *Path) splitString(s, sep *Term) (Value, bool) {
	if !sep.IsConst() || len(sep.S) != 1 || !isSpaceByte(sep.S[0]) {
		if s.IsConst() && sep.IsConst() {
			var out []Value
			for _, x := range strings.Split(s.S, sep.S) {
				out = append(out, mkStr(x))
			}
			return Slice{data: out}, true
		}
		return nil, false
	}
	var fields []Value
	var cur []*Term
	for _, part := range concatParts(s) {
		if part.IsConst() {
			segs := strings.Split(part.S, sep.S)
			for i, seg := range segs {
				if i > 0 {
					fields = append(fields, mkConcat(cur...))
					cur = nil
				}
				if seg != "" {
					cur = append(cur, mkStr(seg))
				}
			}
			continue
		}
		if !p.knownField(part) {
			return nil, false
		}
		cur = append(cur, part)
	}
	fields = append(fields, mkConcat(cur...))
	return Slice{data: fields}, true
}

// byteSliceTerm: a real slice whose elements are byte values, as a string term.
func byteSliceTerm(s Slice) (*Term, bool) {
	parts := []*Term{}
	for _, e := range s.data {
		t, ok := e.(*Term)
		if !ok || t.Sort != SInt {
			return nil, false
		}
		parts = append(parts, mkFromCode(t))
	}
	return mkConcat(parts...), true
}
