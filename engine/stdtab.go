package main

// The installed toolchain's standard-library table (import path -> declared package
// name), computed at check time with `go list std` — the independent oracle for C18/C03.

import (
	"os"
	"os/exec"
	"sort"
	"strings"
	"sync"
)

var (
	stdOnce  sync.Once
	stdPaths []string
	stdNames = map[string]string{}
)

func loadStdTable() {
	stdOnce.Do(func() {
		cmd := exec.Command("go", "list", "-f", "{{.ImportPath}} {{.Name}}", "std")
		cmd.Dir = repoDir
		cmd.Env = append(os.Environ(), "GOFLAGS=-mod=mod", "GOPROXY=off", "GOSUMDB=off", "GOTOOLCHAIN=local")
		out, err := cmd.Output()
		if err != nil {
			return
		}
		for _, l := range strings.Split(string(out), "\n") {
			f := strings.Fields(l)
			if len(f) != 2 || f[1] == "main" {
				continue
			}
			stdNames[f[0]] = f[1]
			stdPaths = append(stdPaths, f[0])
		}
		sort.Strings(stdPaths)
	})
}

func stdPathSetTerm(p *Term) *Term {
	loadStdTable()
	return memberOf(p, stdPaths)
}

func stdNameTerm(p *Term) *Term {
	loadStdTable()
	if p.IsConst() {
		return mkStr(stdNames[p.S])
	}
	var val *Term = mkStr("")
	for i := len(stdPaths) - 1; i >= 0; i-- {
		val = mkIte(mkEq(p, mkStr(stdPaths[i])), mkStr(stdNames[stdPaths[i]]), val)
	}
	return val
}
