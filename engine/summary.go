package main

// Function summaries (DESIGN.md 3.2/6): a callee is replaced by a contract that a
// lemma harness of the same property proves on the callee's real SSA in the same run.

import (
	"strings"
	"go/token"
	"go/types"
	"sort"
	"sync"

	"golang.org/x/tools/go/ssa"
)

var reLowerIdent = mustRe(`[a-z][a-z0-9]*`)

func (p *Path) applySummary(fn *ssa.Function, args []Value) (Value, bool) {
	if !p.summaries[fn.Name()] {
		return nil, false
	}
	switch fn.Name() {
	case "guessAlias":
		// contract: a function of the path whose result is a lower-case identifier
		s := args[0].(*Term)
		if s.IsConst() {
			return nil, false // run the real code on constants
		}
		return mkUF("galias", SStr, s), true
	case "IsReservedWord":
		// contract: membership in the package's `reserved` list (contents read from the real global)
		s := args[0].(*Term)
		words := p.reservedWords()
		if words == nil {
			return nil, false
		}
		return memberOf(s, words), true
	}
	p.unsupported("no summary defined for %s", fn.Name())
	return nil, false
}

func memberOf(s *Term, words []string) *Term {
	if s.IsConst() {
		for _, w := range words {
			if w == s.S {
				return tTrue
			}
		}
		return tFalse
	}
	ws := append([]string{}, words...)
	sort.Strings(ws)
	var lits []*Re
	for _, w := range ws {
		lits = append(lits, reLit(w))
	}
	if len(lits) == 0 {
		return tFalse
	}
	return mkInRe(s, reUnion(lits...))
}

// reservedWords reads the constant contents of jen.reserved from the path's globals.
func (p *Path) reservedWords() []string {
	for pk := range p.ex.pkgs {
		if g, ok := pk.Members["reserved"].(*ssa.Global); ok {
			sl, ok := (*p.global(g)).(Slice)
			if !ok {
				return nil
			}
			var out []string
			for _, v := range sl.data {
				t, ok := v.(*Term)
				if !ok || !t.IsConst() {
					return nil
				}
				out = append(out, t.S)
			}
			return out
		}
	}
	return nil
}

func stringSliceConsts(v Value) ([]string, bool) {
	sl, ok := v.(Slice)
	if !ok {
		return nil, false
	}
	var out []string
	for _, x := range sl.data {
		t, ok := x.(*Term)
		if !ok || !t.IsConst() {
			return nil, false
		}
		out = append(out, t.S)
	}
	return out, true
}

// ---- independent reserved-word oracle: go/token keywords + universe scope

var (
	goReservedOnce sync.Once
	goReserved     []string
)

func goReservedIdents() []string {
	goReservedOnce.Do(func() {
		set := map[string]bool{}
		for t := token.Token(0); t < token.Token(200); t++ {
			if t.IsKeyword() {
				set[t.String()] = true
			}
		}
		for _, n := range types.Universe.Names() {
			set[n] = true
		}
		for n := range set {
			goReserved = append(goReserved, n)
		}
		sort.Strings(goReserved)
	})
	return goReserved
}

// ---- concrete evaluation of a repo function (native value of a summary UF)

var concreteMu sync.Mutex
var concreteEx *Explorer

var concreteMemo sync.Map

func concreteCallString(fnName string, arg string) (string, bool) {
	key := fnName + "\x00" + arg
	if v, ok := concreteMemo.Load(key); ok {
		r := v.([2]string)
		return r[0], r[1] == "ok"
	}
	res, ok := concreteCallStringUncached(fnName, arg)
	st := "fail"
	if ok {
		st = "ok"
	}
	concreteMemo.Store(key, [2]string{res, st})
	return res, ok
}

func concreteCallStringUncached(fnName string, arg string) (res string, ok bool) {
	concreteMu.Lock()
	ex := concreteEx
	concreteMu.Unlock()
	if ex == nil {
		return "", false
	}
	var fn *ssa.Function
	for pk := range ex.pkgs {
		if f := pk.Func(fnName); f != nil {
			fn = f
		}
	}
	if fn == nil {
		return "", false
	}
	defer func() {
		if r := recover(); r != nil {
			ok = false
		}
	}()
	p := newPath(ex, nil, nil)
	p.runInit()
	v := p.callFunction(fn, []Value{mkStr(arg)}, nil)
	t, isT := v.(*Term)
	if !isT || !t.IsConst() {
		return "", false
	}
	return t.S, true
}

// summaryBattery: real values of the summarised functions on the "nice" inputs, so
// that model search over those inputs is immediately consistent with the real code.
func summaryBattery() {
	nat := nativeUF("galias")
	var rows [][]string
	inputs := append([]string{}, niceStrings...)
	for _, w := range goReservedIdents() {
		inputs = append(inputs, "x/"+w)
	}
	inputs = append(inputs, "a/1d", "a/D", "a/d/", "a/b.c", "a/123", "x/d1", "y/d1")
	for _, s := range inputs {
		row := []string{"s:" + s}
		val, ok := nat(row)
		if !ok {
			continue
		}
		app := intern(&Term{Op: "uf", Sort: SStr, Name: "galias", Args: []*Term{mkStr(s)}})
		addGroundFact(app, row, val)
		rows = append(rows, row)
	}
	batteryTab["galias"] = rows
}

// ---- automatic summaries

var (
	autoMu  sync.Mutex
	autoFns = map[string]*ssa.Function{}
)

func registerAuto(fn *ssa.Function) {
	autoMu.Lock()
	autoFns["auto:"+fn.Name()] = fn
	autoMu.Unlock()
}

func autoNative(name string) func(args []string) (string, bool) {
	autoMu.Lock()
	fn := autoFns[name]
	autoMu.Unlock()
	if fn == nil {
		return nil
	}
	return func(args []string) (res string, ok bool) {
		mkey := name + "\x00" + strings.Join(args, "\x00")
		if v, hit := concreteMemo.Load(mkey); hit {
			r := v.([2]string)
			return r[0], r[1] == "ok"
		}
		defer func() {
			st := "fail"
			if ok {
				st = "ok"
			}
			concreteMemo.Store(mkey, [2]string{res, st})
		}()
		concreteMu.Lock()
		ex := concreteEx
		concreteMu.Unlock()
		if ex == nil {
			return "", false
		}
		defer func() {
			if r := recover(); r != nil {
				ok = false
			}
		}()
		p := newPath(ex, nil, nil)
		p.runInit()
		var vs []Value
		for i, a := range args {
			b := fn.Signature.Params().At(i).Type().Underlying().(*types.Basic)
			vs = append(vs, Value(valueTerm(a, sortOfBasic(b))))
		}
		v := p.callFunction(fn, vs, nil)
		t, isT := v.(*Term)
		if !isT || !t.IsConst() {
			return "", false
		}
		return termModelValue(t), true
	}
}
