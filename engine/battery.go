package main

// Ground-fact batteries: real library values of the contract UFs on fixed
// representative inputs, computed natively at start-up on every run. They do not
// weaken any universal claim (the UF stays unconstrained elsewhere); they let the
// solver pick counterexamples that are immediately consistent with the real library.

import (
	"fmt"
	"math"
	"strconv"
	"sync"
)

var batteryOnce sync.Once
var batteryTab = map[string][][]string{}

func f64bits(f float64) string { return strconv.FormatUint(math.Float64bits(f), 10) }
func f32bits(f float32) string { return strconv.FormatUint(uint64(math.Float32bits(f)), 10) }

func initBattery() {
	batteryOnce.Do(func() {
		var fl []float64
		base := []float64{0, 1, 0.1, 1.5, 100, 123456, 1234567, 12345678.9, 3.14159, 0.0001234, 1.5e-7, 2.5e-8,
			math.MaxFloat64, math.SmallestNonzeroFloat64, 2.2250738585072014e-308, 1e100, 1e-100, 0.5, 2, 10, 255, 65536, 1e15, 123456789012345678}
		for e := -12; e <= 25; e++ {
			base = append(base, math.Pow(10, float64(e)))
		}
		for _, f := range base {
			fl = append(fl, f, -f)
		}
		for _, f := range fl {
			batteryTab["fmtf64"] = append(batteryTab["fmtf64"], []string{f64bits(f)})
			batteryTab["f64finite"] = append(batteryTab["f64finite"], []string{f64bits(f)})
			g := float32(f)
			if !math.IsInf(float64(g), 0) {
				batteryTab["fmtf32"] = append(batteryTab["fmtf32"], []string{f32bits(g)})
				batteryTab["f32finite"] = append(batteryTab["f32finite"], []string{f32bits(g)})
			}
		}
		cs := []float64{0, 1, -1, 1.5, 1e-7, 1e21, -2.5}
		for _, a := range cs {
			for _, b := range cs {
				batteryTab["fmtc128"] = append(batteryTab["fmtc128"], []string{f64bits(a), f64bits(b)})
				batteryTab["fmtc64"] = append(batteryTab["fmtc64"], []string{f32bits(float32(a)), f32bits(float32(b))})
			}
		}
		strs := []string{"", "a", "\"", "\\", "\n", "`", "\x00", "\x7f", "\xff", "\u00e9", "\t", "'", "a\"b", "a\nb", "\\\"", "*/", "//", "x y", "\u2028", "\r", "\ufeff", "\xc3", "A", "\u212a", "abc", "%", "$", "{", "}"}
		for _, s := range strs {
			for _, n := range []string{"goquote", "canbq", "tolower", "unquote", "unquote_ok"} {
				batteryTab[n] = append(batteryTab[n], []string{"s:" + s})
			}
			q := strconv.Quote(s)
			batteryTab["unquote"] = append(batteryTab["unquote"], []string{"s:" + q}, []string{"s:\"" + s + "\""}, []string{"s:`" + s + "`"})
			batteryTab["unquote_ok"] = append(batteryTab["unquote_ok"], []string{"s:" + q}, []string{"s:\"" + s + "\""}, []string{"s:`" + s + "`"})
		}
		runes := []int{0, 7, 9, 10, 13, 27, 32, '"', '\'', '\\', 'a', 127, 128, 255, 0xe9, 0x2028, 0xd7ff, 0xe000, 0xfeff, 0xfffd, 0xffff, 0x10000, 0x1f600, 0x10ffff}
		for _, r := range runes {
			batteryTab["goquoterune"] = append(batteryTab["goquoterune"], []string{strconv.Itoa(r)})
			batteryTab["runelitval"] = append(batteryTab["runelitval"], []string{"s:" + strconv.QuoteRune(rune(r))})
			if r < 256 {
				batteryTab["runelitval"] = append(batteryTab["runelitval"], []string{"s:'" + string([]byte{byte(r)}) + "'"})
			}
		}
		for i := 0; i < 256; i++ {
			batteryTab["gohex"] = append(batteryTab["gohex"], []string{strconv.Itoa(i)})
		}
		for _, v := range []uint64{256, 65535, 65536, 1 << 32, 1<<32 - 1, 1 << 63, math.MaxUint64} {
			batteryTab["gohex"] = append(batteryTab["gohex"], []string{strconv.FormatUint(v, 10)})
		}
		// install the facts
		sorts := map[string][]Sort{
			"fmtf64": {SInt, SStr}, "f64finite": {SInt, SBool}, "fmtf32": {SInt, SStr}, "f32finite": {SInt, SBool},
			"fmtc128": {SInt, SInt, SStr}, "fmtc64": {SInt, SInt, SStr},
			"goquote": {SStr, SStr}, "canbq": {SStr, SBool}, "tolower": {SStr, SStr}, "unquote": {SStr, SStr}, "unquote_ok": {SStr, SBool},
			"goquoterune": {SInt, SStr}, "runelitval": {SStr, SInt}, "gohex": {SInt, SStr},
		}
		for name, rows := range batteryTab {
			nat := nativeUF(name)
			sg := sorts[name]
			if nat == nil || sg == nil {
				panic("battery: no native evaluator or signature for " + name)
			}
			var kept [][]string
			for _, row := range rows {
				val, ok := nat(row)
				if !ok {
					continue
				}
				var args []*Term
				for i, a := range row {
					args = append(args, valueTerm(a, sg[i]))
				}
				app := intern(&Term{Op: "uf", Sort: sg[len(sg)-1], Name: name, Args: args})
				addGroundFact(app, row, val)
				kept = append(kept, row)
			}
			batteryTab[name] = kept
		}
		_ = fmt.Sprint
	})
}

// batteryHint: the application's arguments equal one of the battery rows.
func batteryHint(app *Term) *Term {
	rows := batteryTab[app.Name]
	if len(rows) == 0 {
		return nil
	}
	var alts []*Term
	for _, row := range rows {
		var eqs []*Term
		for i, a := range app.Args {
			eqs = append(eqs, mkEq(a, valueTerm(row[i], a.Sort)))
		}
		alts = append(alts, mkAnd(eqs...))
	}
	return mkOr(alts...)
}
