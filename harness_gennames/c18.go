package main

// C18 (second sentence): the gennames tool produces a name table with the same guarantee.
// getPackages is executed on a symbolic `go list` output of n lines "<standard> <path> <name>":
// every listed standard, non-main (and, with novendor, non-vendored) path is mapped to the name
// listed for it, the first occurrence of a path winning, and nothing else is in the table.

const reField = `[^ \n\t\r]+`

var lineIDs = []string{"l0", "l1", "l2"}

func H_C18_gennames() {
	verifMapOrderAll(false)
	n := 1 + nondetChoice("n", 2+verifTier())
	novendor := nondetBool("novendor")
	var std []bool
	var paths, names []string
	out := ""
	for i := 0; i < n; i++ {
		s := nondetBool("std_" + lineIDs[i])
		p := nondetString("path_" + lineIDs[i])
		nm := nondetString("name_" + lineIDs[i])
		verifAssume(verifMatch(p, reField))
		verifAssume(verifMatch(nm, reField))
		// vendored paths are the subject of the thorough tier
		if verifTier() == 0 {
			verifAssume(!verifMatch(p, `.*vendor.*`))
		}
		std = append(std, s)
		paths = append(paths, p)
		names = append(names, nm)
		if s {
			out += "true"
		} else {
			out += "false"
		}
		out += " " + p + " " + nm + "\n"
	}
	verifGoListOutput(out)
	m, err := getPackages("all", ".*", true, novendor)
	if err != nil {
		return // the go command failed: nothing is claimed about the table
	}
	expected := 0
	for i := 0; i < n; i++ {
		included := std[i] && names[i] != "main" && !(novendor && hasVendor(paths[i]))
		key := unvendorPath(paths[i])
		first := true
		for j := 0; j < i; j++ {
			jIncluded := std[j] && names[j] != "main" && !(novendor && hasVendor(paths[j]))
			if jIncluded && unvendorPath(paths[j]) == key {
				first = false
			}
		}
		if included && first {
			expected++
			verifAssert(m[key] == names[i], "a listed standard package is mapped to the name listed for it (first occurrence wins)")
		}
		if !included && first {
			// unless a later line lists the same path as an included package, it is absent
			later := false
			for j := i + 1; j < n; j++ {
				jIncluded := std[j] && names[j] != "main" && !(novendor && hasVendor(paths[j]))
				if jIncluded && unvendorPath(paths[j]) == key {
					later = true
				}
			}
			if !later {
				verifAssert(m[key] == "", "excluded packages are not in the table")
			}
		}
	}
	verifAssert(len(m) == expected, "nothing else is in the table")
}
