package main

// Harness support for package main of gennames (see /verif/harness/support.go; same intrinsics,
// the subset this harness needs). Natively the values come from a replay vector and the `go`
// command is replaced by a script that prints the vector's "go list" output.

import (
	"encoding/hex"
	"fmt"
	"os"
	"path/filepath"
	"regexp"
)

type verifVector struct {
	Harness string            `json:"harness"`
	ID      string            `json:"id"`
	Strings map[string]string `json:"strings"`
	Bools   map[string]bool   `json:"bools"`
	Ints    map[string]string `json:"ints"`
	Choices map[string]int    `json:"choices"`
	Tier    int               `json:"tier"`
}

type verifAssertRec struct {
	Label   string `json:"label"`
	OK      bool   `json:"ok"`
	Known   bool   `json:"known"`
	Finding string `json:"finding"`
}

type verifObsRec struct {
	Label string `json:"label"`
	Hex   string `json:"hex"`
}

type verifRun struct {
	ID        string           `json:"id"`
	Harness   string           `json:"harness"`
	Asserts   []verifAssertRec `json:"asserts"`
	Obs       []verifObsRec    `json:"obs"`
	Panic     string           `json:"panic"`
	AssumeOff bool             `json:"assume_failed"`
	Missing   []string         `json:"missing"`
}

var (
	verifVec *verifVector
	verifOut *verifRun
)

type verifAssumeFailed struct{}

func nondetString(name string) string {
	if verifVec != nil {
		if h, ok := verifVec.Strings[name]; ok {
			b, _ := hex.DecodeString(h)
			return string(b)
		}
	}
	if verifOut != nil {
		verifOut.Missing = append(verifOut.Missing, name)
	}
	return ""
}

func nondetBool(name string) bool {
	if verifVec != nil {
		if b, ok := verifVec.Bools[name]; ok {
			return b
		}
	}
	return false
}

func nondetChoice(name string, n int) int {
	if verifVec != nil {
		if c, ok := verifVec.Choices[name]; ok {
			return c
		}
	}
	return 0
}

func verifAssume(c bool) {
	if !c {
		panic(verifAssumeFailed{})
	}
}

func verifAssert(c bool, label string) {
	if verifOut != nil {
		verifOut.Asserts = append(verifOut.Asserts, verifAssertRec{Label: label, OK: c})
	}
}

func verifObserve(label string, s string) {
	if verifOut != nil {
		verifOut.Obs = append(verifOut.Obs, verifObsRec{Label: label, Hex: hex.EncodeToString([]byte(s))})
	}
}

func verifTier() int {
	if verifVec != nil {
		return verifVec.Tier
	}
	return 0
}

func verifMapOrderAll(b bool) {}
func verifUnwind(n int)       {}

func verifLatin1(s string) string {
	rs := make([]rune, len(s))
	for i := 0; i < len(s); i++ {
		rs[i] = rune(s[i])
	}
	return string(rs)
}

func verifMatch(s, pattern string) bool {
	return regexp.MustCompile(`(?s)^(?:` + pattern + `)$`).MatchString(verifLatin1(s))
}

// verifGoListOutput: what `go list` prints. Symbolically the engine's stub of (*exec.Cmd).Output
// returns it; natively a fake `go` executable that prints it is put first on PATH.
func verifGoListOutput(out string) {
	dir, err := os.MkdirTemp("", "verif-fakego-")
	if err != nil {
		panic(err)
	}
	data := filepath.Join(dir, "out.txt")
	os.WriteFile(data, []byte(out), 0644)
	script := fmt.Sprintf("#!/bin/sh\ncat %s\n", data)
	os.WriteFile(filepath.Join(dir, "go"), []byte(script), 0755)
	os.Setenv("PATH", dir+":/bin:/usr/bin")
}
