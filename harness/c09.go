package jen

import "bytes"

// C09: Files do not interfere: no hidden global state.
// Part 1: every store, map update or in-place append that reaches memory reachable from a
// package-level variable of package jen is recorded by the engine; building and rendering
// must record none. Part 2: a job rendered after other jobs (including failing ones) gives
// exactly what it gives alone. Goroutine interleavings are not explored: jobs that share no
// Code values and write no global touch disjoint memory (frame argument, DESIGN.md C09).

func c09Job(tag string, rich bool) (*File, string) {
	f := NewFilePath("local.example/" + nondetString("local_"+tag))
	f.NoFormat = nondetBool("noformat_" + tag)
	p := "a" + nondetString("path_"+tag)
	verifNotKeyOf(p, standardLibraryHints)
	f.Add(Qual(p, "X").Call(Lit(1)))
	f.Add(&symCode{id: "i_" + tag, canFail: false})
	f.Add(Switch(Id("x")).Block(Case(Lit(1)).Block(Return()), Default().Block()))
	if rich {
		impPrefix(f)
		h := nondetString("header_" + tag)
		verifAssume(!verifHasPrefix(h, "/") && !verifContainsNewline(h))
		f.HeaderComment(h)
		f.Add(Lit(nondetString("s_" + tag)))
		f.Add(Id("T").Values(Dict{Id("k"): &symCode{id: "v_" + tag}}))
		f.Add(Id("s").Tag(map[string]string{"json": nondetString("tag_" + tag)}))
		f.Add(Comment(nondetString("c_" + tag)))
	}
	buf := &bytes.Buffer{}
	err := f.Render(buf)
	out := buf.String()
	if err != nil {
		out = "error"
	}
	return f, out
}

func H_C09_no_global_writes() {
	impSummaries()
	canonicalMapOrder()
	verifTrackGlobals(true)
	c09Job("a", true)
	// a write to package-level state is not by itself a violation (a transparent cache is allowed): it is
	// reported as a NOTE; whether it is observable is decided by the history harnesses below
	verifNote(verifGlobalWrites() != 0, "building/rendering writes package-level state")
}

// the same job before and after an unrelated (possibly failing) job
func H_C09_history_independence() {
	impSummaries()
	canonicalMapOrder()
	_, alone := c09Job("a", false)
	c09Job("b", false)
	_, after := c09Job("a", false)
	verifAssert(alone == after, "a File's output does not depend on the Files built and rendered before it")
}

// Code values shared by Files rendered one after another render in each File by that File's own settings
func H_C09_shared_code() {
	impSummaries()
	canonicalMapOrder()
	p := "a" + nondetString("path")
	verifNotKeyOf(p, standardLibraryHints)
	mk := func() *Statement {
		return Switch(Qual(p, "V")).Block(Case(&symCode{id: "c0"}).Block(&symCode{id: "b0"}), Default().Block())
	}
	shared := mk()
	f1 := NewFilePath("one.example/" + nondetString("l1"))
	f1.PackagePrefix = "one"
	f2 := NewFilePath("two.example/" + nondetString("l2"))
	if nondetBool("alias2") {
		h := nondetString("h2")
		verifAssume(verifMatch(h, reIdent))
		verifAssume(h != "_")
		f2.ImportAlias(p, h)
	}
	f2b := NewFilePath("two.example/" + nondetString("l2"))
	if nondetBool("alias2") {
		f2b.ImportAlias(p, nondetString("h2"))
	}
	c14raw(shared, f1)
	got, _ := c14raw(shared, f2)
	want, _ := c14raw(mk(), f2b)
	verifAssert(got == want, "a shared statement renders in the second File exactly as a freshly built one does")
}

// a File with two references that may collide on their base name is rendered first; a second File
// that uses only one of the paths must then get exactly what it gets in a fresh process: for a single,
// unhinted, non-standard import that is the guessed alias (made unique against reserved words only)
func H_C09_history_collisions() {
	canonicalMapOrder()
	impSummaries()
	p, q := leadPath(0), leadPath(1)
	big := NewFile("x")
	big.NoFormat = true
	big.Add(Qual(p, "A"))
	big.Add(Qual(q, "B"))
	if nondetBool("swap") {
		big = NewFile("x")
		big.NoFormat = true
		big.Add(Qual(q, "B"))
		big.Add(Qual(p, "A"))
	}
	c08fileRaw(big)
	small := NewFile("y")
	small.NoFormat = true
	small.Add(Qual(q, "B"))
	out, _ := c08fileRaw(small)
	want := guessAlias(q)
	if IsReservedWord(want) {
		want += "1"
	}
	verifObserve("small", out)
	verifAssert(out == "package y\n\nimport "+want+" "+specQuote(q)+"\n\n\n"+want+".B", "a File's import names do not depend on the Files rendered before it")
}

// settings of one File (name hints, aliases, dot-imports, a package prefix) stay with that File:
// a later File without any setting gets the plain guessed alias for the same path
func H_C09_history_hints() {
	canonicalMapOrder()
	impSummaries()
	p := leadPath(0)
	a := NewFile("x")
	a.NoFormat = true
	switch nondetChoice("setting", 5) {
	case 0:
		h := nondetString("h0")
		verifAssume(verifMatch(h, reIdent))
		verifAssume(h != "_")
		a.ImportAlias(p, h)
	case 1:
		h := nondetString("h0")
		verifAssume(verifMatch(h, reIdent))
		verifAssume(h != "_")
		a.ImportName(p, h)
	case 2:
		a.ImportAlias(p, ".")
	case 3:
		pre := nondetString("prefix")
		verifAssume(verifMatch(pre, reIdent))
		a.PackagePrefix = pre
	case 4:
		a.Anon(p)
	}
	a.Add(Qual(p, "A"))
	c08fileRaw(a)
	b := NewFile("y")
	b.NoFormat = true
	b.Add(Qual(p, "B"))
	out, _ := c08fileRaw(b)
	want := guessAlias(p)
	if IsReservedWord(want) {
		want += "1"
	}
	verifObserve("second", out)
	verifAssert(out == "package y\n\nimport "+want+" "+specQuote(p)+"\n\n\n"+want+".B", "a File's import names do not depend on the settings of Files rendered before it")
}
