package jen

import "bytes"

// C17: struct tags round-trip through reflect.StructTag.

const reTagKey = `[!#-9;-~]+` // printable ASCII without space, quote, colon

func H_C17_tag() {
	maxM := 3 + verifTier()
	m := nondetChoice("m", maxM+1)
	items := map[string]string{}
	var keys, vals []string
	for i := 0; i < m; i++ {
		// keys: fixed first byte (pins the sorted position, w.l.o.g. for a map) + free conventional key text
		k := leadBytes[i] + nondetString("key_"+dictKeyIDs[i])
		verifAssume(verifMatch(k, reTagKey))
		v := nondetString("val_" + dictKeyIDs[i])
		items[k] = v
		keys = append(keys, k)
		vals = append(vals, v)
	}
	st := Tag(items)
	f := NewFile("p")
	verifAssert(st.isNull(f) == (m == 0), "an empty tag map renders nothing")
	if m == 0 {
		return
	}
	buf := &bytes.Buffer{}
	err := st.render(f, buf, nil)
	verifAssert(err == nil, "no error")
	out := buf.String()
	verifObserve("out", out)
	// the conventional tag text: key:"value" pairs, sorted by key, separated by one space
	inner := ""
	for i := 0; i < m; i++ {
		if i > 0 {
			inner += " "
		}
		inner += keys[i] + ":" + specQuote(vals[i])
	}
	verifAssert(specStringLitIs(out, inner), "the literal's value is the conventional tag text with keys in sorted order")
	for i := 0; i < m; i++ {
		verifAssert(specTagLookup(out, inner, keys[i], vals[i]), "reflect.StructTag returns the given value for the key")
	}
}

// two arbitrary conventional keys: any order, prefixes of each other
func H_C17_tag_anykeys() {
	k0, k1 := nondetString("key_k0"), nondetString("key_k1")
	verifAssume(verifMatch(k0, reTagKey))
	verifAssume(verifMatch(k1, reTagKey))
	verifAssume(k0 != k1)
	v0, v1 := nondetString("val_k0"), nondetString("val_k1")
	st := Tag(map[string]string{k0: v0, k1: v1})
	buf := &bytes.Buffer{}
	err := st.render(NewFile("p"), buf, nil)
	verifAssert(err == nil, "no error")
	out := buf.String()
	verifObserve("out", out)
	a := k0 + ":" + specQuote(v0) + " " + k1 + ":" + specQuote(v1)
	b := k1 + ":" + specQuote(v1) + " " + k0 + ":" + specQuote(v0)
	if k0 < k1 {
		verifAssert(specStringLitIs(out, a), "sorted conventional tag text")
	} else {
		verifAssert(specStringLitIs(out, b), "sorted conventional tag text")
	}
}
