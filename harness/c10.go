package jen

import "bytes"

// C10: failure atomicity and error propagation for Render and Save.

// faultWriter: every Write may fail (free boolean per call); everything it is given is logged.
type faultWriter struct {
	tag    string
	calls  int
	log    string
	failed bool
}

func (w *faultWriter) Write(p []byte) (int, error) {
	w.calls++
	k := verifItoa(w.calls)
	if nondetBool("werr_" + w.tag + k) {
		w.failed = true
		// a failing write may have consumed a prefix
		return 0, &verifErr{"write failed"}
	}
	w.log += string(p)
	return len(p), nil
}

func c10Children(n int) []Code {
	var cs []Code
	for i := 0; i < n; i++ {
		cs = append(cs, &symCode{id: slotNames[i], canFail: true})
	}
	return cs
}

func c10File(noFormat bool, n int) *File {
	f := NewFile(nondetString("pkgname"))
	f.NoFormat = noFormat
	if nondetBool("has_header") {
		f.HeaderComment(nondetString("header"))
	}
	if nondetBool("has_pkgcomment") {
		f.PackageComment(nondetString("pkgcomment"))
	}
	f.CanonicalPath = nondetString("canonical")
	f.Add(c10Children(n)...)
	return f
}

func c10N() int {
	maxN := 2
	if verifTier() > 0 {
		maxN = 3
	}
	return nondetChoice("n", maxN+1)
}

func H_C10_file_render() {
	n := c10N()
	noFormat := nondetBool("noformat")
	// reference: the raw rendering into a private buffer
	rawBuf := &bytes.Buffer{}
	rawErr := c10File(true, n).Render(rawBuf)
	raw := rawBuf.String()
	expected := raw
	renderFails := rawErr != nil
	if !noFormat {
		if !renderFails && !specGofmtOK(raw) {
			renderFails = true
		}
		expected = specGofmt(raw)
	}
	w := &faultWriter{}
	err := c10File(noFormat, n).Render(w)
	if renderFails {
		verifAssert(err != nil, "a render/format failure is returned")
		verifAssert(w.calls == 0, "nothing is written when rendering or formatting fails")
		return
	}
	if w.failed {
		verifAssert(err != nil, "a writer error is returned")
		return
	}
	verifAssert(err == nil, "success returns nil")
	verifObserve("written", w.log)
	verifAssert(w.log == expected, "the writer received exactly the rendered output")
}

func H_C10_file_save() {
	n := c10N()
	noFormat := nondetBool("noformat")
	rawBuf := &bytes.Buffer{}
	rawErr := c10File(true, n).Render(rawBuf)
	raw := rawBuf.String()
	expected := raw
	renderFails := rawErr != nil
	if !noFormat {
		if !renderFails && !specGofmtOK(raw) {
			renderFails = true
		}
		expected = specGofmt(raw)
	}
	// what the target holds before Save (only meaningful natively; symbolically the file system is free)
	pre, exists := "OLD", true
	switch nondetChoice("preexisting", 4) {
	case 1:
		pre = expected + "// stale tail\n"
	case 2:
		pre = expected
	case 3:
		exists = false
	}
	name := verifTempFileWith("filename", pre, exists)
	err := c10File(noFormat, n).Save(name)
	// the file system afterwards: natively the real file, symbolically the engine's model of it
	content, found := verifReadTempFile(name)
	if renderFails {
		verifAssert(err != nil, "a render/format failure is returned")
		verifAssert(found == exists && (!found || content == pre), "target untouched when rendering fails")
		return
	}
	if verifFSFailed() {
		verifAssert(err != nil, "the file system's error is returned, never swallowed")
		return
	}
	verifAssert(err == nil, "success returns nil")
	verifObserve("saved", content)
	verifAssert(found && content == expected, "on success the saved file holds exactly the rendered output")
	if !exists {
		m := verifFSCreatedMode(name)
		verifAssert(m == -1 || m == 420, "a new file is created with mode 0644")
	}
}

func c10Fragment(which int, n int, w *faultWriter, rawBuf *bytes.Buffer) (err error, rawErr error) {
	f1, f2 := NewFile("p"), NewFile("p")
	switch which {
	case 0:
		s := &Statement{}
		s.Add(c10Children(n)...)
		rawErr = s.render(f1, rawBuf, nil)
		err = s.RenderWithFile(w, f2)
	case 1:
		s := &Statement{}
		s.Add(c10Children(n)...)
		rawErr = s.render(f1, rawBuf, nil)
		err = s.Render(w)
	case 2:
		g := &Group{open: nondetString("open"), close: nondetString("close"), separator: nondetString("sep"), multi: nondetBool("multi"), items: c10Children(n)}
		rawErr = g.render(f1, rawBuf, nil)
		err = g.RenderWithFile(w, f2)
	case 3:
		g := &Group{open: nondetString("open"), close: nondetString("close"), separator: nondetString("sep"), multi: nondetBool("multi"), items: c10Children(n)}
		rawErr = g.render(f1, rawBuf, nil)
		err = g.Render(w)
	}
	return
}

func H_C10_fragment_render() {
	n := c10N()
	w := &faultWriter{}
	rawBuf := &bytes.Buffer{}
	err, rawErr := c10Fragment(nondetChoice("entry", 4), n, w, rawBuf)
	raw := rawBuf.String()
	renderFails := rawErr != nil
	if !renderFails && !specGofmtOK(raw) {
		renderFails = true
	}
	if renderFails {
		verifAssert(err != nil, "a render/format failure is returned")
		verifAssert(w.calls == 0, "nothing is written when rendering or formatting fails")
		return
	}
	if w.failed {
		verifAssert(err != nil, "a writer error is returned")
		return
	}
	verifAssert(err == nil, "success returns nil")
	verifObserve("written", w.log)
	verifAssert(w.log == specGofmt(raw), "the writer received exactly the formatted fragment")
}

func H_C10_gostring() {
	n := c10N()
	rawBuf := &bytes.Buffer{}
	var out string
	var rawErr error
	var panicked bool
	switch nondetChoice("entry", 3) {
	case 0:
		s := &Statement{}
		s.Add(c10Children(n)...)
		rawErr = s.render(NewFile(""), rawBuf, nil)
		panicked = verifPanics(func() { out = s.GoString() })
	case 1:
		g := &Group{open: nondetString("open"), close: nondetString("close"), separator: nondetString("sep"), items: c10Children(n)}
		rawErr = g.render(NewFile(""), rawBuf, nil)
		panicked = verifPanics(func() { out = g.GoString() })
	case 2:
		rawErr = c10File(true, n).Render(rawBuf)
		panicked = verifPanics(func() { out = c10File(false, n).GoString() })
	}
	raw := rawBuf.String()
	fails := rawErr != nil
	if !fails && !specGofmtOK(raw) {
		fails = true
	}
	verifAssert(panicked == fails, "GoString panics exactly when rendering fails")
	if !fails && !panicked {
		verifAssert(out == specGofmt(raw), "GoString returns the formatted rendering")
	}
}

// a failed call leaves nothing behind: the next Render of the same File delivers exactly the
// rendered output (and a failing one still writes nothing)
func H_C10_render_after_failure() {
	n := nondetChoice("n", 2)
	noFormat := nondetBool("noformat")
	rawBuf := &bytes.Buffer{}
	rawErr := c10File(true, n).Render(rawBuf)
	raw := rawBuf.String()
	expected := raw
	renderFails := rawErr != nil
	if !noFormat {
		if !renderFails && !specGofmtOK(raw) {
			renderFails = true
		}
		expected = specGofmt(raw)
	}
	f := c10File(noFormat, n)
	w1 := &faultWriter{tag: "first_"}
	err1 := f.Render(w1)
	if err1 == nil {
		// the first call succeeded: a second one repeats it (C08's subject); only failures matter here
		return
	}
	w2 := &faultWriter{}
	err2 := f.Render(w2)
	if renderFails {
		verifAssert(err2 != nil, "a render/format failure is returned again")
		verifAssert(w2.calls == 0, "nothing is written when rendering or formatting fails")
		return
	}
	if w2.failed {
		verifAssert(err2 != nil, "a writer error is returned")
		return
	}
	verifAssert(err2 == nil, "a Render after a failed one succeeds")
	verifObserve("written", w2.log)
	verifAssert(w2.log == expected, "after a failed Render the writer receives exactly the rendered output")
}
