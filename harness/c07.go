package jen

import "bytes"

// C07: output is deterministic: it never depends on map iteration order.
// Every range over a map is explored under all iteration orders; verifDeterministic is a
// relational obligation between the schedules.

func c07M() int { return 3 + verifTier() }

func H_C07_dict() {
	m := nondetChoice("m", c07M()+1)
	d := Dict{}
	for i := 0; i < m; i++ {
		d[&leadCode{id: dictKeyIDs[i], lead: leadBytes[i]}] = &symCode{id: dictValIDs[i]}
	}
	buf := &bytes.Buffer{}
	err := Values(d).render(NewFile("p"), buf, nil)
	verifAssert(err == nil, "no error")
	verifDeterministic("dict", buf.String())
}

// keys that are qualified identifiers: rendering a key registers an import, so the alias
// numbering may follow the iteration order
func H_C07_dict_qualkeys() {
	impSummaries()
	f := NewFile("p")
	f.NoFormat = true
	p0, p1 := leadPath(0), leadPath(1)
	d := Dict{Qual(p0, "A"): Lit(1), Qual(p1, "B"): Lit(2)}
	f.Add(Id("T").Values(d))
	buf := &bytes.Buffer{}
	err := f.Render(buf)
	verifAssert(err == nil, "no error")
	verifDeterministic("file", buf.String())
}

// values that are qualified identifiers of packages first mentioned in the Dict: the values are
// rendered in key order, so the alias numbering does not follow the iteration order
func H_C07_dict_qualvalues() {
	impSummaries()
	f := NewFile("p")
	f.NoFormat = true
	p0, p1 := leadPath(0), leadPath(1)
	k0, k1 := &leadCode{id: "k0", lead: "a"}, &leadCode{id: "k1", lead: "b"}
	verifAssume(!nondetBool("null_k0") && !nondetBool("null_k1"))
	d := Dict{k0: Qual(p0, "A"), k1: Qual(p1, "B")}
	f.Add(Id("T").Values(d))
	buf := &bytes.Buffer{}
	err := f.Render(buf)
	verifAssert(err == nil, "no error")
	verifDeterministic("file", buf.String())
}

func H_C07_tag() {
	m := nondetChoice("m", c07M()+1)
	items := map[string]string{}
	for i := 0; i < m; i++ {
		items[leadBytes[i]+nondetString("key_"+dictKeyIDs[i])] = nondetString("val_" + dictKeyIDs[i])
	}
	st := Tag(items)
	f := NewFile("p")
	if st.isNull(f) {
		return
	}
	buf := &bytes.Buffer{}
	err := st.render(f, buf, nil)
	verifAssert(err == nil, "no error")
	verifDeterministic("tag", buf.String())
}

func H_C07_importnames() {
	impSummaries()
	f := NewFile("p")
	impPrefix(f)
	m := 1 + nondetChoice("m", 2+verifTier())
	names := map[string]string{}
	var ps []string
	for i := 0; i < m; i++ {
		p := leadPath(i)
		ps = append(ps, p)
		h := nondetString(hintNames[i])
		verifAssume(verifMatch(h, reIdent))
		names[p] = h
	}
	f.ImportNames(names)
	out := ""
	for i := 0; i < m; i++ {
		out += f.register(ps[i]) + ";"
	}
	verifDeterministic("qualifiers", out)
	ib := &bytes.Buffer{}
	f.renderImports(ib)
	verifDeterministic("imports", ib.String())
}

func H_C07_importblock() {
	impSummaries()
	f := NewFile("p")
	k := 1 + nondetChoice("k", 2+verifTier())
	out := ""
	for i := 0; i < k; i++ {
		p := leadPath(i)
		if nondetBool("anon_" + pathNames[i]) {
			f.Anon(p)
		} else {
			out += f.register(p) + ";"
		}
	}
	verifDeterministic("qualifiers", out)
	ib := &bytes.Buffer{}
	f.renderImports(ib)
	verifDeterministic("imports", ib.String())
}

// two (or three) distinct keys that render to the same text: the order of their pairs must not
// follow the map iteration order
func H_C07_dict_samekeys() {
	n := 2 + nondetChoice("n", 2+verifTier())
	d := Dict{}
	for i := 0; i < n; i++ {
		k := &symCode{id: dictKeyIDs[i]}
		verifAssume(!nondetBool("null_" + dictKeyIDs[i]))
		verifAssume(nondetString("out_"+dictKeyIDs[i]) == nondetString("out_k0"))
		// values with fixed, distinct first bytes: the tie-break between them is decided syntactically
		v := &leadCode{id: dictValIDs[i], lead: leadBytes[i]}
		verifAssume(!nondetBool("null_" + dictValIDs[i]))
		d[k] = v
	}
	buf := &bytes.Buffer{}
	err := Values(d).render(NewFile("p"), buf, nil)
	verifAssert(err == nil, "no error")
	verifDeterministic("dict", buf.String())
}
