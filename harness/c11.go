package jen

import "bytes"

// C11: numeric and boolean literals preserve value and type.

func litForm(v interface{}) *Statement {
	switch nondetChoice("form", 3) {
	case 0:
		return Lit(v)
	case 1:
		return LitFunc(func() interface{} { return v })
	}
	return newStatement().Lit(v)
}

func H_C11_bool() {
	b := nondetBool("b")
	out, err := renderOne(litForm(b))
	verifAssert(err == nil, "no error")
	verifObserve("out", out)
	verifAssert(specBoolConstIs(out, b), "bool constant")
}

func H_C11_int() {
	v := nondetInt("v", -9223372036854775808, 9223372036854775807)
	out, err := renderOne(litForm(v))
	verifAssert(err == nil, "no error")
	verifObserve("out", out)
	verifAssert(specIntConstIs(out, "int", v), "int constant")
}

func H_C11_sized_int() {
	var out string
	var err error
	var ok bool
	switch nondetChoice("type", 4) {
	case 0:
		v := nondetInt("v", -128, 127)
		out, err = renderOne(litForm(int8(v)))
		ok = specIntConstIs(out, "int8", v)
	case 1:
		v := nondetInt("v", -32768, 32767)
		out, err = renderOne(litForm(int16(v)))
		ok = specIntConstIs(out, "int16", v)
	case 2:
		v := nondetInt("v", -2147483648, 2147483647)
		out, err = renderOne(litForm(int32(v)))
		ok = specIntConstIs(out, "int32", v)
	case 3:
		v := nondetInt("v", -9223372036854775808, 9223372036854775807)
		out, err = renderOne(litForm(int64(v)))
		ok = specIntConstIs(out, "int64", v)
	}
	verifAssert(err == nil, "no error")
	verifObserve("out", out)
	verifAssert(ok, "sized signed constant of exactly that type and value")
}

func H_C11_unsigned() {
	var out string
	var err error
	var ok bool
	switch nondetChoice("type", 6) {
	case 0:
		v := nondetInt("v", 0, 255)
		out, err = renderOne(litForm(uint8(v)))
		ok = specUintConstIs(out, "uint8", uint64(v))
	case 1:
		v := nondetInt("v", 0, 65535)
		out, err = renderOne(litForm(uint16(v)))
		ok = specUintConstIs(out, "uint16", uint64(v))
	case 2:
		v := nondetInt("v", 0, 4294967295)
		out, err = renderOne(litForm(uint32(v)))
		ok = specUintConstIs(out, "uint32", uint64(v))
	case 3:
		v := nondetUint64("v")
		out, err = renderOne(litForm(v))
		ok = specUintConstIs(out, "uint64", v)
	case 4:
		v := nondetUint64("v")
		out, err = renderOne(litForm(uint(v)))
		ok = specUintConstIs(out, "uint", v)
	case 5:
		v := nondetUint64("v")
		out, err = renderOne(litForm(uintptr(v)))
		ok = specUintConstIs(out, "uintptr", v)
	}
	verifAssert(err == nil, "no error")
	verifObserve("out", out)
	verifAssert(ok, "unsigned constant of exactly that type and value")
}

func H_C11_float64() {
	v := nondetFloat64("v")
	verifAssume(verifFinite64(v))
	out, err := renderOne(litForm(v))
	verifAssert(err == nil, "no error")
	verifObserve("out", out)
	verifAssert(specFloat64ConstIs(out, v), "float64 constant with default type float64")
}

func H_C11_float32() {
	v := nondetFloat32("v")
	verifAssume(verifFinite32(v))
	out, err := renderOne(litForm(v))
	verifAssert(err == nil, "no error")
	verifObserve("out", out)
	verifAssert(specFloat32ConstIs(out, v), "float32 constant")
}

func H_C11_complex128() {
	v := nondetComplex128("v")
	verifAssume(verifFinite64(real(v)))
	verifAssume(verifFinite64(imag(v)))
	out, err := renderOne(litForm(v))
	verifAssert(err == nil, "no error")
	verifObserve("out", out)
	verifAssert(specComplex128ConstIs(out, v), "complex128 constant")
}

func H_C11_complex64() {
	v := nondetComplex64("v")
	verifAssume(verifFinite32(real(v)))
	verifAssume(verifFinite32(imag(v)))
	out, err := renderOne(litForm(v))
	verifAssert(err == nil, "no error")
	verifObserve("out", out)
	verifAssert(specComplex64ConstIs(out, v), "complex64 constant")
}

// a numeric literal's text does not depend on what the same File rendered before
func H_C11_in_context() {
	f := NewFile("p")
	first := c12Literal(nondetChoice("first", 6), "first_")
	b0 := &bytes.Buffer{}
	verifAssert(first.render(f, b0, nil) == nil, "no error")
	k := nondetChoice("target", 3)
	if k == 2 {
		k = 5
	}
	target := c12Literal(k, "")
	b1 := &bytes.Buffer{}
	verifAssert(target.render(f, b1, nil) == nil, "no error")
	fresh, err := renderOne(target)
	verifAssert(err == nil, "no error")
	verifObserve("out", b1.String())
	verifAssert(b1.String() == fresh, "a literal renders the same whatever the File rendered before")
}
