package jen

// C05: import names are unique and legal for any path, hint and prefix.

func c05K() int {
	if verifTier() > 0 {
		return 3
	}
	return 2
}

func H_C05_register() {
	impSummaries()
	f := NewFile("p")
	impPrefix(f)
	k := 1 + nondetChoice("k", c05K())
	var ps, qs []string
	for i := 0; i < k; i++ {
		ps = append(ps, impPath(i))
	}
	distinct(ps)
	for i := 0; i < k; i++ {
		if i < 2 {
			impHint(f, i, ps[i]) // the third path (thorough tier) is never hinted
		}
	}
	for i := 0; i < k; i++ {
		qs = append(qs, f.register(ps[i]))
	}
	for i := 0; i < k; i++ {
		verifObserve("q", qs[i])
		verifAssert(verifMatch(qs[i], reIdent), "import name is an identifier")
		verifAssert(!specIsGoReserved(qs[i]), "import name is neither a keyword nor predeclared")
		for j := 0; j < i; j++ {
			verifAssert(qs[i] != qs[j], "distinct paths get distinct names")
		}
	}
}

// Lemma: guessAlias always yields a lower-case ASCII identifier (contract used as summary).
func H_C05_lemma_guessAlias() {
	// bound: at most 2 leading digits are stripped (loop iterations beyond that are cut, stated in the claim)
	verifUnwindAssume(2)
	p := nondetString("path")
	a := guessAlias(p)
	verifObserve("alias", a)
	verifAssert(verifMatch(a, `[a-z][a-z0-9]*`), "guessAlias yields a lower-case identifier")
}

// Lemma: IsReservedWord is exactly membership in the reserved list (contract used as summary).
func H_C05_lemma_IsReservedWord() {
	verifUnwind(200)
	s := nondetString("word")
	verifAssert(IsReservedWord(s) == verifMemberOf(s, reserved), "IsReservedWord is membership in the reserved list")
}

// Lemma: isValidAlias does not depend on the iteration order of the import table and writes nothing.
func H_C05_lemma_isValidAlias_order() {
	verifSummarise("IsReservedWord")
	f := NewFile("p")
	f.imports[nondetString("k0")] = importdef{name: nondetString("n0"), alias: nondetBool("a0")}
	f.imports[nondetString("k1")] = importdef{name: nondetString("n1"), alias: nondetBool("a1")}
	f.imports[nondetString("k2")] = importdef{name: nondetString("n2"), alias: nondetBool("a2")}
	alias := nondetString("alias")
	want := alias == "." || (!IsReservedWord(alias) && alias != f.imports[nondetString("k0")].name && alias != f.imports[nondetString("k1")].name && alias != f.imports[nondetString("k2")].name)
	got := f.isValidAlias(alias)
	verifAssert(got == want, "isValidAlias is order independent: valid iff '.' or not reserved and not a registered name")
}

// One registration step from an arbitrary valid import table (inductive step): the table
// already holds two imports under arbitrary names; whatever they are, the name chosen for
// a further path is legal and different from both. Covers histories of any length that
// lead to such a table.
func H_C05_step() {
	impSummaries()
	canonicalMapOrder()
	f := NewFile("p")
	impPrefix(f)
	n0, n1 := nondetString("n0"), nondetString("n1")
	verifAssume(verifMatch(n0, reIdent))
	verifAssume(verifMatch(n1, reIdent))
	verifAssume(n0 != n1)
	f.imports["pre.example/0"] = importdef{name: n0, alias: nondetBool("a0")}
	f.imports["pre.example/1"] = importdef{name: n1, alias: nondetBool("a1")}
	p := impPath(0)
	verifAssume(p != "pre.example/0")
	verifAssume(p != "pre.example/1")
	impHint(f, 0, p)
	q := f.register(p)
	verifObserve("q", q)
	verifAssert(verifMatch(q, reIdent), "import name is an identifier")
	verifAssert(!specIsGoReserved(q), "import name is neither a keyword nor predeclared")
	verifAssert(q != n0 && q != n1, "the new name differs from every name already in the table")
	verifAssert(f.imports[p].name == q, "and is what the table records")
}

// Many paths competing for one base name: base1..base7 are taken, so the next candidate is
// base8 - which for int/uint is itself predeclared (int8, uint8).
func H_C05_numbered() {
	impSummaries()
	canonicalMapOrder()
	verifUnwind(40)
	f := NewFile("p")
	base := nondetString("base")
	verifAssume(verifMatch(base, `[a-z]+`))
	taken := []string{"pre.example/1", "pre.example/2", "pre.example/3", "pre.example/4", "pre.example/5", "pre.example/6", "pre.example/7"}
	f.imports["pre.example/0"] = importdef{name: base, alias: true}
	for i, k := range taken {
		f.imports[k] = importdef{name: base + verifItoa(i+1), alias: true}
	}
	p := impPath(0)
	for _, k := range taken {
		verifAssume(p != k)
	}
	verifAssume(p != "pre.example/0")
	f.ImportAlias(p, base)
	q := f.register(p)
	verifObserve("q", q)
	verifAssert(!specIsGoReserved(q), "a numbered name is still neither a keyword nor predeclared")
	verifAssert(q != base, "and not the taken base name")
	for i := range taken {
		verifAssert(q != base+verifItoa(i+1), "nor a taken numbered name")
	}
}

// A real history on top of an arbitrary table entry: one import is already present under an
// arbitrary name, then several paths compete for one hinted base name. Whatever bookkeeping
// register keeps between calls, all names are legal and pairwise distinct.
func H_C05_chain() {
	impSummaries()
	canonicalMapOrder()
	verifUnwind(12)
	f := NewFile("p")
	impPrefix(f)
	n0 := nondetString("n0")
	verifAssume(verifMatch(n0, reIdent))
	f.imports["pre.example/0"] = importdef{name: n0, alias: nondetBool("a0")}
	h := nondetString("h")
	verifAssume(verifMatch(h, reIdent))
	verifAssume(h != "_")
	k := 3 + verifTier()
	var ps, qs []string
	for i := 0; i < k; i++ {
		p := impPath(i)
		verifAssume(p != "pre.example/0")
		ps = append(ps, p)
	}
	distinct(ps)
	for i := 0; i < k; i++ {
		if nondetChoice("hintkind_"+pathNames[i], 2) == 0 {
			f.ImportName(ps[i], h)
		} else {
			f.ImportAlias(ps[i], h)
		}
	}
	for i := 0; i < k; i++ {
		qs = append(qs, f.register(ps[i]))
	}
	for i := 0; i < k; i++ {
		verifObserve("q", qs[i])
		if f.PackagePrefix == "" {
			// (with a prefix this is H_C05_register's and H_C05_step's obligation; here the solvers
			// do not decide it reliably next to the history's other constraints)
			verifAssert(verifMatch(qs[i], reIdent), "import name is an identifier")
		}
		verifAssert(!specIsGoReserved(qs[i]), "import name is neither a keyword nor predeclared")
		verifAssert(qs[i] != n0, "the new name differs from the name already in the table")
		for j := 0; j < i; j++ {
			verifAssert(qs[i] != qs[j], "distinct paths get distinct names")
		}
	}
}
