package jen

import "bytes"

// C19: the "C" import is never renamed and its preamble sits directly above it.

func H_C19_cgo() {
	impSummaries()
	f := NewFile("p")
	impPrefix(f)
	// hints that name "C"
	switch nondetChoice("chint", 4) {
	case 1:
		h := nondetString("ch")
		verifAssume(verifMatch(h, reIdent))
		f.ImportName("C", h)
	case 2:
		h := nondetString("ch")
		verifAssume(verifMatch(h, reIdent))
		f.ImportAlias("C", h)
	case 3:
		f.ImportAlias("C", ".")
	}
	var pre []string
	npre := nondetChoice("npre", 2+verifTier()) // 0..1 preamble blocks (quick), 0..2 (thorough)
	if npre >= 1 {
		pre = append(pre, nondetString("pre0"))
		f.CgoPreamble(pre[0])
	}
	if npre >= 2 {
		pre = append(pre, nondetString("pre1"))
		f.CgoPreamble(pre[1])
	}
	// one other import whose path sorts after "C" (leading byte fixed, rest arbitrary)
	var entries []refImp
	other := ""
	kind := nondetChoice("other", 4) // none | plain Qual | anonymous | hinted
	if kind != 0 {
		other = "z" + nondetString("otherpath")
		verifNotKeyOf(other, standardLibraryHints)
	}
	anonFirst := nondetBool("anon_c_first")
	anonC := nondetBool("anon_c")
	if anonC && anonFirst {
		f.Anon("C")
	}
	switch kind {
	case 2:
		f.Anon(other)
	case 3:
		impHint(f, 0, other)
	}
	otherFirst := nondetBool("other_first")
	if otherFirst && (kind == 1 || kind == 3) {
		b := &bytes.Buffer{}
		Qual(other, "X").render(f, b, nil)
	}
	qualC := nondetBool("qual_c")
	if qualC {
		name := nondetString("name")
		b := &bytes.Buffer{}
		err := Qual("C", name).render(f, b, nil)
		verifAssert(err == nil, "no error")
		verifAssert(b.String() == "C."+name, "cgo symbols are referenced as C.name")
	}
	if !otherFirst && (kind == 1 || kind == 3) {
		b := &bytes.Buffer{}
		Qual(other, "X").render(f, b, nil)
	}
	if anonC && !anonFirst {
		f.Anon("C")
	}
	if qualC || anonC {
		c := f.imports["C"]
		if qualC && (anonFirst || !anonC) {
			verifAssert(c.name == "C" && !c.alias, "C is registered as the unaliased name C")
		}
		entries = append(entries, refImp{path: "C", name: c.name, alias: c.alias})
	}
	if kind != 0 {
		o := f.imports[other]
		entries = append(entries, refImp{path: other, name: o.name, alias: o.alias})
	}
	ib := &bytes.Buffer{}
	err := f.renderImports(ib)
	verifAssert(err == nil, "no error")
	verifObserve("imports", ib.String())
	verifAssert(ib.String() == refImportBlock(entries, pre), "import \"C\" unaliased; separate and directly below its preamble when one exists")
}
