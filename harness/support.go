package jen

// Harness support for the gosmt symbolic executor (see /verif/DESIGN.md §4.1).
//
// The functions nondet*, verif* and spec* are *intercepted* by the engine when the
// harnesses are executed symbolically; the bodies below are the native
// implementations used when a solver model is replayed against the compiled code
// (go test -overlay): nondet values come from a replay vector.

import (
	"encoding/hex"
	"fmt"
	"io"
	"math"
	"regexp"
	"strconv"
	"strings"
)

type verifVector struct {
	Harness string            `json:"harness"`
	ID      string            `json:"id"`
	Strings map[string]string `json:"strings"` // hex encoded
	Bools   map[string]bool   `json:"bools"`
	Ints    map[string]string `json:"ints"` // decimal
	Choices map[string]int    `json:"choices"`
	Tier    int               `json:"tier"`
}

type verifAssertRec struct {
	Label   string `json:"label"`
	OK      bool   `json:"ok"`
	Known   bool   `json:"known"`
	Finding string `json:"finding"`
}

type verifObsRec struct {
	Label string `json:"label"`
	Hex   string `json:"hex"`
}

type verifRun struct {
	ID        string           `json:"id"`
	Harness   string           `json:"harness"`
	Asserts   []verifAssertRec `json:"asserts"`
	Obs       []verifObsRec    `json:"obs"`
	Panic     string           `json:"panic"`
	AssumeOff bool             `json:"assume_failed"`
	Missing   []string         `json:"missing"`
}

var (
	verifVec *verifVector
	verifOut *verifRun
)

type verifAssumeFailed struct{}

func verifMissing(name string) {
	if verifOut != nil {
		verifOut.Missing = append(verifOut.Missing, name)
	}
}

func nondetString(name string) string {
	if verifVec != nil {
		if h, ok := verifVec.Strings[name]; ok {
			b, _ := hex.DecodeString(h)
			return string(b)
		}
	}
	verifMissing(name)
	return ""
}

func nondetBool(name string) bool {
	if verifVec != nil {
		if b, ok := verifVec.Bools[name]; ok {
			return b
		}
	}
	verifMissing(name)
	return false
}

func verifIntFromVec(name string) (int64, uint64, bool) {
	if verifVec != nil {
		if s, ok := verifVec.Ints[name]; ok {
			if i, err := strconv.ParseInt(s, 10, 64); err == nil {
				return i, uint64(i), true
			}
			if u, err := strconv.ParseUint(s, 10, 64); err == nil {
				return int64(u), u, true
			}
		}
	}
	verifMissing(name)
	return 0, 0, false
}

func nondetInt(name string, lo, hi int) int {
	i, _, ok := verifIntFromVec(name)
	if !ok {
		return lo
	}
	return int(i)
}

func nondetUint64(name string) uint64 {
	_, u, _ := verifIntFromVec(name)
	return u
}

func nondetChoice(name string, n int) int {
	if verifVec != nil {
		if c, ok := verifVec.Choices[name]; ok {
			return c
		}
	}
	verifMissing(name)
	return 0
}

func nondetFloat64(name string) float64 {
	_, u, _ := verifIntFromVec(name)
	return math.Float64frombits(u)
}

func nondetFloat32(name string) float32 {
	_, u, _ := verifIntFromVec(name)
	return math.Float32frombits(uint32(u))
}

func nondetComplex128(name string) complex128 {
	return complex(nondetFloat64(name+".re"), nondetFloat64(name+".im"))
}

func nondetComplex64(name string) complex64 {
	return complex(nondetFloat32(name+".re"), nondetFloat32(name+".im"))
}

func verifAssume(c bool) {
	if !c {
		panic(verifAssumeFailed{})
	}
}

func verifAssert(c bool, label string) {
	if verifOut != nil {
		verifOut.Asserts = append(verifOut.Asserts, verifAssertRec{Label: label, OK: c})
	}
}

// verifAssertKnown is verifAssert for a property with a recorded known finding:
// `known` describes the inputs the finding covers (see /verif/known_findings.json).
func verifAssertKnown(c bool, label string, known bool, finding string) {
	if verifOut != nil {
		verifOut.Asserts = append(verifOut.Asserts, verifAssertRec{Label: label, OK: c, Known: !c && known, Finding: finding})
	}
}

func verifObserve(label string, s string) {
	if verifOut != nil {
		verifOut.Obs = append(verifOut.Obs, verifObsRec{Label: label, Hex: hex.EncodeToString([]byte(s))})
	}
}

func verifTier() int {
	if verifVec != nil {
		return verifVec.Tier
	}
	return 0
}

func verifSummarise(name string)        {}
func verifOrderInsensitive(name string) {}
func verifMapOrderAll(b bool)           {}
func verifCapFork(b bool)               {}
func verifUnwind(n int)                 {}
func verifUnwindAssume(n int)           {}
func verifTrackGlobals(b bool)          {}
func verifExactTables(b bool)           {}
func verifGlobalWrites() int            { return 0 }

func verifLatin1(s string) string {
	rs := make([]rune, len(s))
	for i := 0; i < len(s); i++ {
		rs[i] = rune(s[i])
	}
	return string(rs)
}

var verifReCache = map[string]*regexp.Regexp{}

// verifMatch reports whether the whole byte string s matches pattern (byte semantics).
func verifMatch(s, pattern string) bool {
	re, ok := verifReCache[pattern]
	if !ok {
		re = regexp.MustCompile(`(?s)^(?:` + pattern + `)$`)
		verifReCache[pattern] = re
	}
	return re.MatchString(verifLatin1(s))
}

var verifLastPanic string

// verifPanics runs f and reports whether it panicked.
func verifPanics(f func()) (panicked bool) {
	defer func() {
		if r := recover(); r != nil {
			if _, ok := r.(verifAssumeFailed); ok {
				panic(r)
			}
			verifLastPanic = fmt.Sprint(r)
			panicked = true
		}
	}()
	f()
	return false
}

func verifPanicMsg() string { return verifLastPanic }

func verifFinite64(f float64) bool { return !math.IsInf(f, 0) && !math.IsNaN(f) }
func verifFinite32(f float32) bool { return verifFinite64(float64(f)) }

func verifIte(c bool, a, b string) string {
	if c {
		return a
	}
	return b
}
func verifAnd(a, b bool) bool     { return a && b }
func verifOr(a, b bool) bool      { return a || b }
func verifImplies(a, b bool) bool { return !a || b }
func verifItoa(i int) string      { return strconv.Itoa(i) }

func verifSameObject(a, b interface{}) bool { return a == b }

// Effects (os.* calls) are only recorded by the symbolic engine.
func verifEffectCount() int               { return -1 }
func verifEffectName(i int) string        { return "" }
func verifEffectArg(i, j int) string      { return "" }

// ---- spec oracles (real library natively, UF + contracts symbolically)

func specUnquotesTo(lit, s string) bool {
	u, err := strconv.Unquote(lit)
	return err == nil && u == s
}

// ---- common harness helpers

// symCode is an opaque child: whether it is null and what it writes are free.
type symCode struct {
	id      string
	canFail bool
}

func (c *symCode) isNull(f *File) bool { return nondetBool("null_" + c.id) }

func (c *symCode) render(f *File, w io.Writer, s *Statement) error {
	if c.canFail && nondetBool("fail_"+c.id) {
		// a failing child may have written a prefix before failing
		if _, err := w.Write([]byte(nondetString("partial_" + c.id))); err != nil {
			return err
		}
		return &verifErr{"child " + c.id + " failed"}
	}
	_, err := w.Write([]byte(nondetString("out_" + c.id)))
	return err
}

type verifErr struct{ msg string }

func (e *verifErr) Error() string { return e.msg }

func verifContainsNewline(s string) bool {
	for i := 0; i < len(s); i++ {
		if s[i] == '\n' {
			return true
		}
	}
	return false
}

func verifNotKeyOf(s string, m map[string]string) {
	if _, ok := m[s]; ok {
		panic(verifAssumeFailed{})
	}
}

func verifMemberOf(s string, words []string) bool {
	for _, w := range words {
		if w == s {
			return true
		}
	}
	return false
}

func verifContains(s, sub string) bool { return strings.Contains(s, sub) }

func verifHasPrefix(s, prefix string) bool { return strings.HasPrefix(s, prefix) }

// verifDeterministic: value must not depend on map iteration order or slice capacity
// (relational obligation over schedules, DESIGN C07); natively it is an observation.
func verifDeterministic(label string, value string) { verifObserve("det:"+label, value) }

// verifFormatCalls: how many times go/format.Source has been applied so far (symbolic engine only; -1 natively).
func verifFormatCalls() int { return -1 }

// verifNote: informational remark recorded by the engine when the condition can hold (never a violation).
func verifNote(c bool, text string) {}
