package jen

import "bytes"

// C01: faithful rendering. What is decided here is conformance of the real renderer to the
// reference printer for every construct (the generated H_C01_gen_* harnesses check each exported
// list construct and keyword against the syntax table of engine/gen.go); re-parsing the
// output with go/parser over a corpus is outside this technique (DESIGN.md section 7).

func H_C01_tokens() {
	f := NewFile("p")
	s := nondetString("s")
	switch nondetChoice("kind", 5) {
	case 0:
		out, _ := c14raw(Id(s), f)
		verifAssert(out == s, "Id renders the identifier")
	case 1:
		out, _ := c14raw(Op(s), f)
		if s == "default" {
			verifAssert(out == "default:", "default is always followed by its colon")
		} else {
			verifAssert(out == s, "Op renders the operator")
		}
	case 2:
		out, _ := c14raw(Id("a").Dot(s), f)
		verifAssert(out == "a . "+s || out == "a ."+s || out == "a."+s, "Dot renders a selector")
	case 3:
		out, _ := c14raw(Id("a").Op("+").Id(s).Op("*").Lit(2), f)
		verifAssert(out == "a + "+s+" * 2", "items of a statement are separated by single spaces, in order")
	case 4:
		out, _ := c14raw(Line(), f)
		verifAssert(out == "\n", "Line is a newline")
	}
}

// the switch/case special form: a Block after Case or Default has no braces of its own and
// its statements follow one per line
func H_C01_caseblock() {
	n := nondetChoice("n", 3+verifTier())
	var body []Code
	want := ""
	for i := 0; i < n; i++ {
		body = append(body, &symCode{id: slotNames[i]})
		if !nondetBool("null_" + slotNames[i]) {
			want += "\n" + nondetString("out_"+slotNames[i])
		}
	}
	cond := &symCode{id: "cond"}
	verifAssume(!nondetBool("null_cond"))
	f := NewFile("p")
	var out string
	var head string
	if nondetChoice("clause", 2) == 0 {
		out, _ = c14raw(Case(cond).Block(body...), f)
		head = "case " + nondetString("out_cond") + ":"
	} else {
		out, _ = c14raw(Default().Block(body...), f)
		head = "default:"
	}
	verifObserve("out", out)
	if want == "" {
		verifAssert(out == head || out == head+" ", "an empty clause body renders nothing after the colon")
	} else {
		verifAssert(out == head+" "+want, "clause body: no braces, one statement per line")
	}
	// outside a Case/Default the same Block keeps its braces
	plain, _ := c14raw(Id("x").Block(body...), f)
	if want == "" {
		verifAssert(plain == "x {}", "a plain empty block keeps its braces")
	} else {
		verifAssert(plain == "x {"+want+"\n}", "a plain block keeps its braces")
	}
}

// File assembly: package clause, import block, body; formatted output is gofmt of exactly that
func H_C01_file() {
	impSummaries()
	canonicalMapOrder()
	name := nondetString("pkgname")
	mk := func(noFormat bool) *File {
		f := NewFile(name)
		f.NoFormat = noFormat
		f.Add(&symCode{id: "i0"})
		f.Add(Qual(leadPath(0), "X"))
		return f
	}
	verifAssume(!nondetBool("null_i0"))
	raw := &bytes.Buffer{}
	f1 := mk(true)
	err := f1.Render(raw)
	verifAssert(err == nil, "no error")
	d := f1.imports[leadPath(0)]
	want := "package " + name + "\n\n" + refImportBlock([]refImp{{leadPath(0), d.name, d.alias}}, nil) + "\n" + nondetString("out_i0") + "\n" + d.name + ".X"
	verifObserve("raw", raw.String())
	verifAssert(raw.String() == want, "package clause, blank line, import block, body items one per line")
	if specGofmtOK(raw.String()) {
		fmtd := &bytes.Buffer{}
		err2 := mk(false).Render(fmtd)
		verifAssert(err2 == nil && fmtd.String() == specGofmt(raw.String()), "the formatted file is gofmt of the raw rendering")
	}
}

// literal values inside a larger expression: the literal's text denotes its value (details: C11, C12)
func H_C01_literals() {
	f := NewFile("p")
	switch nondetChoice("kind", 3) {
	case 0:
		s := nondetString("s")
		out, _ := c14raw(Id("x").Op("=").Lit(s), f)
		verifAssert(len(out) > 4 && out[:4] == "x = ", "assignment of a literal")
		if len(out) > 4 {
			verifAssert(specUnquotesTo(out[4:], s), "a string literal denotes exactly its value")
		}
	case 1:
		v := nondetInt("v", -9223372036854775808, 9223372036854775807)
		out, _ := c14raw(Return(Lit(v)), f)
		verifAssert(len(out) > 7 && out[:7] == "return ", "return of a literal")
		if len(out) > 7 {
			verifAssert(specIntConstIs(out[7:], "int", v), "an int literal denotes exactly its value")
		}
	case 2:
		b := nondetBool("b")
		out, _ := c14raw(Lit(b), f)
		verifAssert(specBoolConstIs(out, b), "a bool literal denotes its value")
	}
}

var wideSlotNames = []string{"w0", "w1", "w2", "w3", "w4", "w5", "w6", "w7", "w8", "w9", "w10"}

// programs are commonly built from shared sub-expressions (Clone of a common prefix, extended
// differently at each use): every use renders its own continuation, whatever spare capacity
// the shared statement happens to have
func H_C01_clone_reuse() {
	a, b := nondetString("a"), nondetString("b")
	var base *Statement
	switch nondetChoice("len", 3) {
	case 0:
		base = Id(a)
	case 1:
		base = Id(a).Dot(b)
	case 2:
		base = Id(a).Dot(b).Dot("c")
	}
	baseText, _ := c14raw(base, NewFile("p"))
	s1 := base.Clone().Op("++")
	s2 := base.Clone().Op("--")
	s3 := base.Clone().Op("=").Lit(1)
	f := NewFile("p")
	o1, _ := c14raw(s1, f)
	o2, _ := c14raw(s2, f)
	o3, _ := c14raw(s3, f)
	o0, _ := c14raw(base, f)
	verifAssert(o0 == baseText, "the shared prefix is unchanged by its uses")
	verifAssert(specSameCode(o1, baseText+" ++"), "first use renders its own continuation")
	verifAssert(specSameCode(o2, baseText+" --"), "second use renders its own continuation")
	verifAssert(specSameCode(o3, baseText+" = 1"), "third use renders its own continuation")
}
