package jen

import "bytes"

// C13: nil and Null() items vanish from lists; Empty() keeps its separator.

const (
	itOpaque = iota
	itNil
	itNilStatement
	itNilGroup
	itNull
	itEmpty
	itNullStatement
	itEmptyList
	itEmptyTag
	itKinds
)

// mkItem builds the i-th item of the chosen kind; it returns the item, whether the
// documentation says it is null, and the text it renders when it is not null.
func mkItem(id string, kind int) (Code, bool, string) {
	switch kind {
	case itOpaque:
		c := &symCode{id: id}
		return c, nondetBool("null_" + id), nondetString("out_" + id)
	case itNil:
		return nil, true, ""
	case itNilStatement:
		var s *Statement
		return s, true, ""
	case itNilGroup:
		var g *Group
		return g, true, ""
	case itNull:
		return Null(), true, ""
	case itEmpty:
		return Empty(), false, ""
	case itNullStatement:
		return Null().Null().Add(Null()), true, ""
	case itEmptyList:
		return List(), true, ""
	case itEmptyTag:
		return Tag(map[string]string{}), true, ""
	}
	return nil, true, ""
}

func itemKind(slot string, reduced bool) int {
	if reduced {
		return nondetChoice("kind_"+slot, 2) // opaque | nil
	}
	return nondetChoice("kind_"+slot, itKinds)
}

var slotNames = []string{"i0", "i1", "i2", "i3", "i4", "i5"}

func groupListCore(n int, reduced bool) {
	g := &Group{
		open:      nondetString("open"),
		close:     nondetString("close"),
		separator: nondetString("sep"),
		multi:     nondetBool("multi"),
	}
	switch nondetChoice("name", 3) {
	case 0:
		g.name = "list"
	case 1:
		g.name = "types"
	case 2:
		g.name = "values"
	}
	var nulls []bool
	var texts []string
	for i := 0; i < n; i++ {
		item, isNull, text := mkItem(slotNames[i], itemKind(slotNames[i], reduced))
		g.items = append(g.items, item)
		nulls = append(nulls, isNull)
		texts = append(texts, text)
	}
	f := NewFile("p")
	buf := &bytes.Buffer{}
	var err error
	panicked := verifPanics(func() { err = g.render(f, buf, nil) })
	verifAssert(!panicked, "render of a list with nil/null items does not panic")
	if panicked {
		return
	}
	verifAssert(err == nil, "no error")
	out := buf.String()
	verifObserve("out", out)
	want := refGroup(g.name, g.open, g.close, g.separator, g.multi, nulls, texts)
	verifAssert(specSameCode(out, want), "exactly the non-null items, in order, separated")
	// rendering must not consume or reorder the items: the same list renders the same again
	buf2 := &bytes.Buffer{}
	g.render(f, buf2, nil)
	verifAssert(buf2.String() == out, "the list renders the same a second time")
	var isn bool
	panicked = verifPanics(func() { isn = g.isNull(f) })
	verifAssert(!panicked, "null test of a list with nil/null items does not panic")
	if panicked {
		return
	}
	verifAssert(isn == refGroupNull(g.open, g.close, nulls), "a list is null iff it has no delimiters and only null items")
}

func H_C13_group() {
	maxN := 2
	if verifTier() > 0 {
		maxN = 3
	}
	n := nondetChoice("n", maxN+1)
	groupListCore(n, false)
}

// arity 5 (and 4) with the reduced alphabet {opaque, nil}: arity-dependent separator bugs
func H_C13_group_wide() {
	n := 3 + nondetChoice("n", 3)
	groupListCore(n, true)
}

func statementListCore(n int, reduced bool) {
	s := &Statement{}
	var nulls []bool
	var texts []string
	for i := 0; i < n; i++ {
		item, isNull, text := mkItem(slotNames[i], itemKind(slotNames[i], reduced))
		*s = append(*s, item)
		nulls = append(nulls, isNull)
		texts = append(texts, text)
	}
	f := NewFile("p")
	buf := &bytes.Buffer{}
	var err error
	panicked := verifPanics(func() { err = s.render(f, buf, nil) })
	verifAssert(!panicked, "render of a statement with nil/null items does not panic")
	if panicked {
		return
	}
	verifAssert(err == nil, "no error")
	out := buf.String()
	verifObserve("out", out)
	verifAssert(out == refStatement(nulls, texts), "exactly the non-null items, in order, space separated")
	buf2 := &bytes.Buffer{}
	s.render(f, buf2, nil)
	verifAssert(buf2.String() == refStatement(nulls, texts), "the statement renders the same a second time")
	var isn bool
	panicked = verifPanics(func() { isn = s.isNull(f) })
	verifAssert(!panicked, "null test of a statement with nil/null items does not panic")
	if panicked {
		return
	}
	verifAssert(isn == refAllNull(nulls), "a statement is null iff all its items are")
}

func H_C13_statement() {
	maxN := 2
	if verifTier() > 0 {
		maxN = 3
	}
	n := nondetChoice("n", maxN+1)
	statementListCore(n, false)
}

func H_C13_statement_wide() {
	n := 3 + nondetChoice("n", 3)
	statementListCore(n, true)
}

// content added after a first render: a list that was null becomes non-null (nothing about a
// list may be remembered from an earlier render)
func H_C13_late_content() {
	slot := Add()
	var st *Statement
	want1, want2 := "", ""
	x := nondetString("x")
	switch nondetChoice("construct", 4) {
	case 0:
		st = Id("f").Call(List(slot), Id("b"))
		want1, want2 = "f (b)", "f ("+x+",b)"
	case 1:
		st = Id("f").Types(slot)
		want1, want2 = "f ", "f ["+x+"]"
	case 2:
		st = Id("v").Op("=").Union(slot, Null())
		want1, want2 = "v =", "v = "+x
	case 3:
		st = Id("f").Call(Add(slot))
		want1, want2 = "f ()", "f ("+x+")"
	}
	f := NewFile("p")
	r1, _ := c14raw(st, f)
	verifAssert(r1 == want1, "the empty placeholder renders nothing")
	slot.Id(x)
	r2, _ := c14raw(st, f)
	verifObserve("second", r2)
	verifAssert(r2 == want2, "content added after a render is rendered the next time")
}
