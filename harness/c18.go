package jen

import "bytes"

// C18: standard-library packages are referred to by their real names.

// one symbolic path ranging over every package of the installed toolchain's
// standard library (set and names computed at check time with `go list std`)
func c18One(f *File, id string) (p, q string, d importdef) {
	p = nondetString(id)
	verifAssume(specIsStdPath(p))
	b := &bytes.Buffer{}
	err := Qual(p, "X").render(f, b, nil)
	verifAssert(err == nil, "no error")
	out := b.String()
	verifAssert(len(out) > 2 && out[len(out)-2:] == ".X", "reference is q.X")
	if len(out) <= 2 {
		return
	}
	q = out[:len(out)-2]
	d = f.imports[p]
	verifAssert(d.name == q, "import block binds the rendered qualifier")
	if !d.alias {
		verifAssert(q == specStdName(p), "an unaliased standard-library import is qualified by the package's real name")
	}
	verifAssert(q != "" && q != "_" && q != ".", "usable qualifier")
	return
}

func H_C18_single() {
	impSummaries()
	canonicalMapOrder()
	verifExactTables(true)
	f := NewFile("p")
	if nondetChoice("prefix_on", 2) == 1 {
		f.PackagePrefix = "pkg"
	}
	p, _, d := c18One(f, "p0")
	ib := &bytes.Buffer{}
	f.renderImports(ib)
	verifAssert(ib.String() == refImportBlock([]refImp{{p, d.name, d.alias}}, nil), "import line matches")
}

// colliding pairs (thorough tier): two symbolic standard-library paths in one file
func H_C18_pair() {
	if verifTier() == 0 {
		return
	}
	impSummaries()
	canonicalMapOrder()
	verifExactTables(true)
	f := NewFile("p")
	p0, q0, _ := c18One(f, "p0")
	p1, q1, _ := c18One(f, "p1")
	verifAssume(p0 != p1)
	verifAssert(q0 != q1, "distinct standard-library paths get distinct qualifiers")
}

// a standard-library path referenced after a package it may collide with (rand, template, ...)
func H_C18_after_collision() {
	impSummaries()
	canonicalMapOrder()
	verifExactTables(true)
	f := NewFile("p")
	first := []string{"math/rand", "crypto/rand", "text/template", "net/http"}[nondetChoice("first", 4)]
	b := &bytes.Buffer{}
	Qual(first, "A").render(f, b, nil)
	q0 := f.imports[first].name
	p, q, _ := c18One(f, "p0")
	verifAssume(p != first)
	verifAssert(q != q0, "distinct standard-library paths get distinct qualifiers")
}
