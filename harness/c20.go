package jen

import "bytes"

// C20: clone isolation: clones and originals never corrupt each other.

type c20stmt struct {
	s    *Statement
	src  int      // index of the statement it was cloned from, -1 for the original
	snap string   // rendering of the source when the clone was taken
	own  []string // tokens appended to this statement itself
}

func c20render(s *Statement) string {
	buf := &bytes.Buffer{}
	s.render(NewFile("p"), buf, nil)
	return buf.String()
}

func c20join(ts []string) string {
	out := ""
	for i, t := range ts {
		if i > 0 {
			out += " "
		}
		out += t
	}
	return out
}

// live text: a clone as a live view of its source followed by its own tokens
func c20live(all []c20stmt, i int) string {
	x := all[i]
	if x.src < 0 {
		return c20join(x.own)
	}
	return c20sp(c20live(all, x.src), c20join(x.own))
}

// items of a statement are separated by one space; items that render nothing leave no trace
func c20sp(a, b string) string {
	if a == "" {
		return b
	}
	if b == "" {
		return a
	}
	return a + " " + b
}

// snapshot text: a clone as a copy of its source at clone time followed by its own tokens
func c20snap(all []c20stmt, i int) string {
	x := all[i]
	if x.src < 0 {
		return c20join(x.own)
	}
	return c20sp(x.snap, c20join(x.own))
}

var c20tok = []string{"t0", "t1", "t2", "t3", "t4", "t5", "t6", "t7", "t8", "t9", "t10", "t11", "t12", "t13"}
var c20step = []string{"s0", "s1", "s2", "s3", "s4", "s5"}

func H_C20_clone() {
	// quick: 5 steps on up to 3 statements; thorough: 5 steps on up to 4 statements (deeper nesting)
	c20run(0, 5)
}

// the same histories starting from an original that renders nothing (empty, or Null())
func H_C20_clone_of_empty() {
	c20run(1+nondetChoice("origin", 2), 4)
}

func c20run(origin int, steps int) {
	verifCapFork(true)
	verifUnwind(40)
	orig := &Statement{}
	if nondetChoice("pregrown", 2) == 1 {
		// spare capacity from the start: every append below happens in place
		*orig = make(Statement, 0, 16)
	}
	ntok := 0
	newTok := func() string {
		t := nondetString(c20tok[ntok])
		ntok++
		// tokens are non-empty texts (an empty identifier renders nothing and would blur the separators)
		verifAssume(t != "")
		return t
	}
	all := []c20stmt{{s: orig, src: -1}}
	switch origin {
	case 0:
		t := newTok()
		orig.Id(t)
		all[0].own = []string{t}
	case 2:
		orig.Null()
	}
	for k := 0; k < steps; k++ {
		op := nondetChoice("op_"+c20step[k], 3)
		x := nondetChoice("on_"+c20step[k], len(all))
		switch op {
		case 0: // append one token
			t := newTok()
			all[x].s.Id(t)
			all[x].own = append(all[x].own, t)
		case 1: // append two tokens in one call chain
			t1, t2 := newTok(), newTok()
			all[x].s.Id(t1).Id(t2)
			all[x].own = append(all[x].own, t1, t2)
		case 2: // take a clone (at most 3)
			if len(all) >= 3+verifTier() {
				continue
			}
			c := all[x].s.Clone()
			snap := c20render(all[x].s)
			verifAssert(c20render(c) == snap, "an unmodified clone renders exactly like its original")
			all = append(all, c20stmt{s: c, src: x, snap: snap})
		}
		// after every step: nothing has been lost, altered or reordered anywhere
		verifAssert(c20render(all[0].s) == c20join(all[0].own), "appends to clones never change the original")
		for i := 1; i < len(all); i++ {
			got := c20render(all[i].s)
			verifAssert(verifOr(got == c20live(all, i), got == c20snap(all, i)), "a clone keeps its own tokens, in order, after an intact rendering of its source")
		}
	}
}
