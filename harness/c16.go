package jen

import (
	"bytes"
	"io"
)

// C16: Dict renders every non-null pair exactly once, in key order.

// leadCode: an opaque child whose text starts with a fixed byte (this pins its place in
// the sorted order, which is without loss of generality for a map) followed by free text.
type leadCode struct {
	id   string
	lead string
}

func (c *leadCode) isNull(f *File) bool { return nondetBool("null_" + c.id) }
func (c *leadCode) render(f *File, w io.Writer, s *Statement) error {
	_, err := w.Write([]byte(c.lead + nondetString("out_"+c.id)))
	return err
}

var dictKeyIDs = []string{"k0", "k1", "k2", "k3"}
var dictValIDs = []string{"v0", "v1", "v2", "v3"}

func H_C16_dict() {
	maxM := 3 + verifTier()
	m := nondetChoice("m", maxM+1)
	d := Dict{}
	var knull, vnull []bool
	var ktext, vtext []string
	for i := 0; i < m; i++ {
		k := &leadCode{id: dictKeyIDs[i], lead: leadBytes[i]}
		v := &symCode{id: dictValIDs[i]}
		d[k] = v
		isNilVal := false
		if i == 0 && nondetChoice("nilvalue", 2) == 1 {
			// a nil value behaves like a null one: the pair is omitted
			d[k] = nil
			isNilVal = true
		}
		knull = append(knull, nondetBool("null_"+dictKeyIDs[i]))
		vnull = append(vnull, isNilVal || nondetBool("null_"+dictValIDs[i]))
		ktext = append(ktext, leadBytes[i]+nondetString("out_"+dictKeyIDs[i]))
		vtext = append(vtext, nondetString("out_"+dictValIDs[i]))
	}
	f := NewFile("p")
	buf := &bytes.Buffer{}
	var err error
	panicked := verifPanics(func() { err = Values(d).render(f, buf, nil) })
	verifAssert(!panicked, "no panic")
	if panicked {
		return
	}
	verifAssert(err == nil, "no error")
	// reference: the pairs whose key and value are both non-null, in key order (= index order here)
	n := 0
	for i := 0; i < m; i++ {
		if !knull[i] && !vnull[i] {
			n++
		}
	}
	want := "{"
	if n > 1 {
		want += "\n"
	}
	for i := 0; i < m; i++ {
		if knull[i] || vnull[i] {
			continue
		}
		want += ktext[i] + ":" + vtext[i]
		if n > 1 {
			want += ",\n"
		}
	}
	want += "}"
	verifObserve("out", buf.String())
	verifAssert(buf.String() == want, "every non-null pair once, as key:value, in key order")
	var isn bool
	panicked = verifPanics(func() { isn = d.isNull(f) })
	verifAssert(!panicked, "null test does not panic")
	if !panicked {
		verifAssert(isn == (n == 0), "a Dict is null iff no pair renders")
	}
}

// two pairs with arbitrary key texts: equal texts, prefixes of each other, any order
func H_C16_dict_anykeys() {
	k0, k1 := &symCode{id: "k0"}, &symCode{id: "k1"}
	v0, v1 := &symCode{id: "v0"}, &symCode{id: "v1"}
	verifAssume(!nondetBool("null_k0") && !nondetBool("null_k1") && !nondetBool("null_v0") && !nondetBool("null_v1"))
	d := Dict{k0: v0, k1: v1}
	t0, t1 := nondetString("out_k0"), nondetString("out_k1")
	p0 := t0 + ":" + nondetString("out_v0") + ",\n"
	p1 := t1 + ":" + nondetString("out_v1") + ",\n"
	f := NewFile("p")
	buf := &bytes.Buffer{}
	err := Values(d).render(f, buf, nil)
	verifAssert(err == nil, "no error")
	out := buf.String()
	verifObserve("out", out)
	a := "{\n" + p0 + p1 + "}"
	b := "{\n" + p1 + p0 + "}"
	if t0 < t1 {
		verifAssert(out == a, "pairs in key order, each value with its own key")
	} else if t1 < t0 {
		verifAssert(out == b, "pairs in key order, each value with its own key")
	} else {
		verifAssert(verifOr(out == a, out == b), "keys that render identically: both pairs present, each value with its own key")
	}
}
