package jen

// Native side of the spec oracles: the property's own observables, computed with
// go/scanner, go/types, go/constant, strconv. Symbolically the engine replaces each by
// a structural approximation or an uninterpreted function with contracts; a solver
// counterexample only counts if these native oracles agree (replay).

import (
	"go/build"
	"go/constant"
	"go/format"
	"os"
	"path/filepath"
	"reflect"
	"go/scanner"
	gotoken "go/token"
	"go/types"
	"math"
	"strconv"
)

// specOneToken: s scans as exactly one token of the given kind ("STRING", "CHAR", "INT", "IDENT").
func specOneToken(s string, kind string) bool {
	toks := specScan(s)
	if toks == nil {
		return false
	}
	// drop the automatically inserted semicolon
	if n := len(toks); n > 0 && toks[n-1].tok == gotoken.SEMICOLON && toks[n-1].lit == "\n" {
		toks = toks[:n-1]
	}
	return len(toks) == 1 && toks[0].tok.String() == kind
}

type specTok struct {
	tok gotoken.Token
	lit string
}

// specScan returns the token stream of src, or nil on a scan error.
func specScan(src string) []specTok {
	var s scanner.Scanner
	fset := gotoken.NewFileSet()
	file := fset.AddFile("", fset.Base(), len(src))
	errs := 0
	s.Init(file, []byte(src), func(gotoken.Position, string) { errs++ }, scanner.ScanComments)
	var out []specTok
	for {
		_, tok, lit := s.Scan()
		if tok == gotoken.EOF {
			break
		}
		out = append(out, specTok{tok, lit})
	}
	if errs > 0 {
		return nil
	}
	if out == nil {
		out = []specTok{}
	}
	return out
}

// specScanLenient: as specScan, but errors that concern the encoding of the text only (invalid
// UTF-8, NUL bytes, a byte order mark) do not make the text unscannable: the scanner still delivers
// the token boundaries, and containment of a comment is a question of token boundaries. (A file
// with such bytes is rejected by the formatter, which is C02's subject, not a leak.)
func specScanLenient(src string) []specTok {
	var s scanner.Scanner
	fset := gotoken.NewFileSet()
	file := fset.AddFile("", fset.Base(), len(src))
	errs := 0
	s.Init(file, []byte(src), func(_ gotoken.Position, msg string) {
		switch {
		case len(msg) >= 22 && msg[:22] == "illegal UTF-8 encoding":
		case len(msg) >= 21 && msg[:21] == "illegal character NUL":
		case len(msg) >= 23 && msg[:23] == "illegal byte order mark":
		default:
			errs++
		}
	}, scanner.ScanComments)
	var out []specTok
	for {
		_, tok, lit := s.Scan()
		if tok == gotoken.EOF {
			break
		}
		out = append(out, specTok{tok, lit})
	}
	if errs > 0 {
		return nil
	}
	if out == nil {
		out = []specTok{}
	}
	return out
}

func specRuneLitValue(lit string) int {
	if len(lit) < 3 || lit[0] != '\'' || lit[len(lit)-1] != '\'' {
		return -1
	}
	r, _, tail, err := strconv.UnquoteChar(lit[1:len(lit)-1], '\'')
	if err != nil || tail != "" {
		return -1
	}
	return int(r)
}

func specIntLitValue(lit string) int {
	tv, err := types.Eval(gotoken.NewFileSet(), nil, gotoken.NoPos, lit)
	if err != nil || tv.Value == nil || tv.Value.Kind() != constant.Int {
		return -1
	}
	v, ok := constant.Int64Val(tv.Value)
	if !ok {
		return -1
	}
	return int(v)
}

func specEval(expr string) (types.TypeAndValue, bool) {
	tv, err := types.Eval(gotoken.NewFileSet(), nil, gotoken.NoPos, expr)
	if err != nil || tv.Value == nil {
		return tv, false
	}
	return tv, true
}

func specTypeIs(tv types.TypeAndValue, typ string) bool {
	want := types.Universe.Lookup(typ)
	if want == nil {
		return false
	}
	return types.Identical(types.Default(tv.Type), want.Type())
}

func specIntConstIs(expr string, typ string, v int) bool {
	tv, ok := specEval(expr)
	if !ok || !specTypeIs(tv, typ) {
		return false
	}
	return constant.Compare(constant.ToInt(tv.Value), gotoken.EQL, constant.MakeInt64(int64(v)))
}

func specUintConstIs(expr string, typ string, v uint64) bool {
	tv, ok := specEval(expr)
	if !ok || !specTypeIs(tv, typ) {
		return false
	}
	return constant.Compare(constant.ToInt(tv.Value), gotoken.EQL, constant.MakeUint64(v))
}

func specBoolConstIs(expr string, b bool) bool {
	tv, ok := specEval(expr)
	if !ok || !specTypeIs(tv, "bool") {
		return false
	}
	return constant.BoolVal(tv.Value) == b
}

func specFloatEq(c constant.Value, v float64) bool {
	f := constant.ToFloat(c)
	if f.Kind() != constant.Float && f.Kind() != constant.Int {
		return false
	}
	got, _ := constant.Float64Val(f)
	if got != v {
		return false
	}
	// exactness: the constant must be the exact value of v (or round to it as a float64 literal would)
	return math.Signbit(got) == math.Signbit(v) || v == 0
}

func specFloat64ConstIs(expr string, v float64) bool {
	tv, ok := specEval(expr)
	if !ok || !specTypeIs(tv, "float64") {
		return false
	}
	return specFloatEq(tv.Value, v)
}

func specFloat32ConstIs(expr string, v float32) bool {
	tv, ok := specEval(expr)
	if !ok || !specTypeIs(tv, "float32") {
		return false
	}
	got, _ := constant.Float32Val(constant.ToFloat(tv.Value))
	return got == v
}

func specComplex128ConstIs(expr string, v complex128) bool {
	tv, ok := specEval(expr)
	if !ok || !specTypeIs(tv, "complex128") {
		return false
	}
	c := constant.ToComplex(tv.Value)
	return specFloatEq(constant.Real(c), real(v)) && specFloatEq(constant.Imag(c), imag(v))
}

func specComplex64ConstIs(expr string, v complex64) bool {
	tv, ok := specEval(expr)
	if !ok || !specTypeIs(tv, "complex64") {
		return false
	}
	c := constant.ToComplex(tv.Value)
	re, _ := constant.Float32Val(constant.Real(c))
	im, _ := constant.Float32Val(constant.Imag(c))
	return re == real(v) && im == imag(v)
}

// specGofmt / specGofmtOK: go/format.Source (uninterpreted gofmt / gofmt_ok symbolically).
func specGofmt(src string) string {
	b, err := format.Source([]byte(src))
	if err != nil {
		return ""
	}
	return string(b)
}

func specGofmtOK(src string) bool {
	_, err := format.Source([]byte(src))
	return err == nil
}

var verifTempDir string

// verifTempFile: natively a fresh temp file pre-filled with "OLD"; symbolically a free string.
func verifTempFile(name string) string {
	if verifTempDir == "" {
		d, err := os.MkdirTemp("", "verif-save-")
		if err != nil {
			panic(err)
		}
		verifTempDir = d
	}
	p := filepath.Join(verifTempDir, "target.go")
	os.WriteFile(p, []byte("OLD"), 0644)
	return p
}

// verifTempFileWith: natively a temp file holding `content` (or absent when !exists).
func verifTempFileWith(name string, content string, exists bool) string {
	p := verifTempFile(name)
	if exists {
		os.WriteFile(p, []byte(content), 0644)
	} else {
		os.Remove(p)
	}
	return p
}

func verifReadTempFile(p string) (string, bool) {
	b, err := os.ReadFile(p)
	if err != nil {
		return "", false
	}
	return string(b), true
}

func verifEffectFailed(i int) bool { return false }

// verifFSFailed: symbolically, some file-system operation of this path failed (the environment
// decides); natively no fault is injected.
func verifFSFailed() bool { return false }

// verifFSCreatedMode: symbolically the mode with which this run created the file (-1: it did not
// create it); natively not observed (-1).
func verifFSCreatedMode(name string) int { return -1 }

// specIsGoReserved: s is a Go keyword or a predeclared (universe scope) identifier —
// computed from go/token and go/types, not from jennifer's own list.
func specIsGoReserved(s string) bool {
	return gotoken.IsKeyword(s) || types.Universe.Lookup(s) != nil
}

// specQuote: the import path as a Go string literal (strconv.Quote).
func specQuote(s string) string { return strconv.Quote(s) }

// specIsStdPath / specStdName: the installed toolchain's own view of its standard
// library (go/build on GOROOT/src), not jennifer's table.
func specIsStdPath(p string) bool {
	pkg, err := build.Default.Import(p, "", build.FindOnly)
	return err == nil && pkg.Goroot
}

func specStdName(p string) string {
	pkg, err := build.Default.Import(p, "", 0)
	if err != nil && pkg == nil {
		return ""
	}
	if pkg == nil || !pkg.Goroot {
		return ""
	}
	return pkg.Name
}

// specStringLitIs: lit is one Go string literal (raw or interpreted) whose value is exactly val.
func specStringLitIs(lit string, val string) bool {
	if !specOneToken(lit, "STRING") {
		return false
	}
	u, err := strconv.Unquote(lit)
	return err == nil && u == val
}

// specTagLookup: reflect.StructTag(value of lit).Lookup(key) returns val. Symbolically the
// conventional-format parser of package reflect is trusted: the obligation is that lit
// denotes the conventional tag text `conventional` (which contains key:"val").
func specTagLookup(lit, conventional, key, val string) bool {
	u, err := strconv.Unquote(lit)
	if err != nil {
		return false
	}
	got, ok := reflect.StructTag(u).Lookup(key)
	return ok && got == val
}

// specIsOneComment: s scans as exactly one comment token and nothing else.
func specIsOneComment(s string) bool {
	toks := specScanLenient(s)
	if toks == nil {
		return false
	}
	n := 0
	for _, t := range toks {
		if t.tok == gotoken.COMMENT {
			n++
		} else if !(t.tok == gotoken.SEMICOLON && t.lit == "\n") {
			return false
		}
	}
	return n == 1
}

// specSameCode: got and want are the same code up to layout. Natively the token streams
// (go/scanner) are compared, ignoring automatically inserted semicolons, explicit semicolons
// before a closing brace and commas directly before a closing token; when either text does
// not scan (arbitrary child texts) the comparison is exact. Symbolically it is exact equality,
// so a layout-only difference is a solver counterexample that does not reproduce (no alarm).
func specSameCode(got, want string) bool {
	if got == want {
		return true
	}
	a, b := specScan(got), specScan(want)
	if a == nil || b == nil {
		// the texts do not scan (arbitrary child texts): layout cannot be separated from content
		// here, so this input is not used to confirm a difference (other inputs will be)
		return true
	}
	na, nb := specNormTokens(a), specNormTokens(b)
	if len(na) != len(nb) {
		return false
	}
	for i := range na {
		if na[i] != nb[i] {
			return false
		}
	}
	return true
}

func specNormTokens(ts []specTok) []specTok {
	var out []specTok
	for i, t := range ts {
		if t.tok == gotoken.COMMENT {
			continue
		}
		if t.tok == gotoken.SEMICOLON && t.lit == "\n" {
			continue
		}
		if t.tok == gotoken.COMMA || t.tok == gotoken.SEMICOLON {
			// directly before a closing token (skipping inserted semicolons)?
			j := i + 1
			for j < len(ts) && ts[j].tok == gotoken.SEMICOLON && ts[j].lit == "\n" {
				j++
			}
			if j < len(ts) && (ts[j].tok == gotoken.RPAREN || ts[j].tok == gotoken.RBRACK || ts[j].tok == gotoken.RBRACE) {
				continue
			}
			if j >= len(ts) && t.tok == gotoken.SEMICOLON {
				continue
			}
		}
		out = append(out, specTok{t.tok, t.lit})
	}
	return out
}
