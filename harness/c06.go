package jen

import "bytes"

// C06: references to the local package and to dot-imports are unqualified.

var dotConsts = []string{"dot.example/a", "dot.example/b", "dot.example/c", "dot.example/d", "dot.example/e"}

func c06File() (*File, string) {
	local := nondetString("local")
	var f *File
	if nondetChoice("ctor", 2) == 0 {
		f = NewFilePath(local)
	} else {
		f = NewFilePathName(local, nondetString("localname"))
	}
	return f, local
}

func H_C06_qual() {
	impSummaries()
	f, local := c06File()
	impPrefix(f)
	// other dot imports already in the file (0..4 quick, 0..5 thorough)
	maxDots := 4
	if verifTier() > 0 {
		maxDots = 5
	}
	nd := nondetChoice("ndots", maxDots+1)
	for i := 0; i < nd; i++ {
		verifAssume(local != dotConsts[i])
		f.ImportAlias(dotConsts[i], ".")
		b := &bytes.Buffer{}
		Qual(dotConsts[i], "X").render(f, b, nil)
		verifAssert(b.String() == "X", "earlier dot import reference is bare")
	}
	p := impPath(0)
	for i := 0; i < nd; i++ {
		verifAssume(p != dotConsts[i])
	}
	name := nondetString("name")
	mode := nondetChoice("mode", 3)
	switch mode {
	case 0: // the local package itself, even when hints name it
		verifAssume(p == local)
		switch nondetChoice("hint_on_local", 4) {
		case 1:
			f.ImportName(p, "localname")
		case 2:
			f.ImportAlias(p, "localalias")
		case 3:
			f.ImportAlias(p, ".")
		}
	case 1: // declared a dot import
		verifAssume(p != local)
		f.ImportAlias(p, ".")
	case 2: // any other path, however similar to the local path; possibly hinted
		verifAssume(p != local)
		impHint(f, 0, p)
	}
	// hints for unrelated paths given afterwards must not change anything
	verifAssume(p != "unrelated.example/z")
	verifAssume(local != "unrelated.example/z")
	switch nondetChoice("late_unrelated_hint", 3) {
	case 1:
		f.ImportAlias("unrelated.example/z", "zalias")
	case 2:
		f.ImportName("unrelated.example/z", "zname")
	}
	before := len(f.imports)
	buf := &bytes.Buffer{}
	var err error
	if nondetChoice("nest", 2) == 0 {
		err = Qual(p, name).render(f, buf, nil)
	} else {
		err = Parens(Qual(p, name)).render(f, buf, nil)
	}
	verifAssert(err == nil, "no error")
	out := buf.String()
	if nondetChoice("nest", 2) == 1 {
		verifAssert(len(out) >= 2, "parenthesised")
		if len(out) < 2 {
			return
		}
		out = out[1 : len(out)-1]
	}
	verifObserve("out", out)
	switch mode {
	case 0:
		verifAssert(out == name, "local reference is the bare name")
		verifAssert(len(f.imports) == before, "local reference produces no import")
	case 1:
		verifAssert(out == name, "dot-import reference is the bare name")
		verifAssert(f.imports[p].name == "." && f.imports[p].alias, "dot import is registered as exactly `.`")
	case 2:
		q := f.imports[p].name
		verifAssert(q != "" && q != "." && q != "_", "other paths are imported under a usable name")
		verifAssert(out == q+"."+name, "other paths are qualified by their import name")
	}
	// the import block spells the dot import `. "path"` (single-import form; the multi-import block layout is C04/C19's)
	if mode == 1 && nd == 0 {
		ib := &bytes.Buffer{}
		f.renderImports(ib)
		verifAssert(ib.String() == "import . "+specQuote(p)+"\n\n", "single dot import line")
	}
}
