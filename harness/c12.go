package jen

import "bytes"

// C12: string, rune and byte literals preserve their exact content.

func renderOne(c Code) (string, error) {
	buf := &bytes.Buffer{}
	f := NewFile("p")
	err := c.render(f, buf, nil)
	return buf.String(), err
}

func H_C12_string() {
	s := nondetString("s")
	var st *Statement
	if nondetChoice("form", 2) == 0 {
		st = Lit(s)
	} else {
		st = LitFunc(func() interface{} { return s })
	}
	out, err := renderOne(st)
	verifAssert(err == nil, "no error")
	verifObserve("out", out)
	verifAssert(specUnquotesTo(out, s), "literal unquotes to s")
	verifAssert(specOneToken(out, "STRING"), "one string token")
}

func H_C12_rune() {
	r := nondetInt("r", 0, 0x10ffff)
	verifAssume(r < 0xd800 || r > 0xdfff)
	var st *Statement
	if nondetChoice("form", 2) == 0 {
		st = LitRune(rune(r))
	} else {
		st = LitRuneFunc(func() rune { return rune(r) })
	}
	out, err := renderOne(st)
	verifAssert(err == nil, "no error")
	verifObserve("out", out)
	verifAssert(specRuneLitValue(out) == r, "rune literal denotes r")
	verifAssert(specOneToken(out, "CHAR"), "one rune token")
}

func H_C12_byte() {
	b := nondetInt("b", 0, 255)
	var st *Statement
	if nondetChoice("form", 2) == 0 {
		st = LitByte(byte(b))
	} else {
		st = LitByteFunc(func() byte { return byte(b) })
	}
	out, err := renderOne(st)
	verifAssert(err == nil, "no error")
	verifObserve("out", out)
	verifAssert(specUintConstIs(out, "uint8", uint64(b)), "constant of type byte with value b")
}
