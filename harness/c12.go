package jen

import "bytes"

// C12: string, rune and byte literals preserve their exact content.

func H_C12_string() {
	s := nondetString("s")
	buf := &bytes.Buffer{}
	f := NewFile("p")
	err := Lit(s).render(f, buf, nil)
	verifAssert(err == nil, "no error")
	out := buf.String()
	verifObserve("out", out)
	verifAssert(specUnquotesTo(out, s), "literal unquotes to s")
	verifAssert(verifMatch(out, `"([^"\\\n]|\\.)*"`), "one interpreted string token")
}
