package jen

import "bytes"

// C12: string, rune and byte literals preserve their exact content.

func renderOne(c Code) (string, error) {
	buf := &bytes.Buffer{}
	f := NewFile("p")
	err := c.render(f, buf, nil)
	return buf.String(), err
}

func H_C12_string() {
	s := nondetString("s")
	var st *Statement
	if nondetChoice("form", 2) == 0 {
		st = Lit(s)
	} else {
		st = LitFunc(func() interface{} { return s })
	}
	out, err := renderOne(st)
	verifAssert(err == nil, "no error")
	verifObserve("out", out)
	verifAssert(specUnquotesTo(out, s), "literal unquotes to s")
	verifAssert(specOneToken(out, "STRING"), "one string token")
}

func H_C12_rune() {
	r := nondetInt("r", 0, 0x10ffff)
	verifAssume(r < 0xd800 || r > 0xdfff)
	var st *Statement
	if nondetChoice("form", 2) == 0 {
		st = LitRune(rune(r))
	} else {
		st = LitRuneFunc(func() rune { return rune(r) })
	}
	out, err := renderOne(st)
	verifAssert(err == nil, "no error")
	verifObserve("out", out)
	verifAssert(specRuneLitValue(out) == r, "rune literal denotes r")
	verifAssert(specOneToken(out, "CHAR"), "one rune token")
}

func H_C12_byte() {
	b := nondetInt("b", 0, 255)
	var st *Statement
	if nondetChoice("form", 2) == 0 {
		st = LitByte(byte(b))
	} else {
		st = LitByteFunc(func() byte { return byte(b) })
	}
	out, err := renderOne(st)
	verifAssert(err == nil, "no error")
	verifObserve("out", out)
	verifAssert(specUintConstIs(out, "uint8", uint64(b)), "constant of type byte with value b")
}

// one literal of each flavour, with its own inputs
func c12Literal(kind int, tag string) *Statement {
	switch kind {
	case 0:
		return Lit(int32(nondetInt(tag+"v", -2147483648, 2147483647)))
	case 1:
		return Lit(uint8(nondetInt(tag+"b", 0, 255)))
	case 2:
		return LitRune(rune(nondetInt(tag+"r", 0, 0x10ffff)))
	case 3:
		return LitByte(byte(nondetInt(tag+"b", 0, 255)))
	case 4:
		return Lit(nondetString(tag + "s"))
	}
	return Lit(nondetInt(tag+"i", -1000000, 1000000))
}

// a literal's text is a function of its value alone: whatever the same File rendered before
// (a literal of another flavour with, possibly, the same underlying value), a rune, byte or
// string literal comes out exactly as in a fresh File
func H_C12_in_context() {
	f := NewFile("p")
	first := c12Literal(nondetChoice("first", 6), "first_")
	b0 := &bytes.Buffer{}
	verifAssert(first.render(f, b0, nil) == nil, "no error")
	target := c12Literal(2+nondetChoice("target", 3), "")
	b1 := &bytes.Buffer{}
	verifAssert(target.render(f, b1, nil) == nil, "no error")
	fresh, err := renderOne(target)
	verifAssert(err == nil, "no error")
	verifObserve("out", b1.String())
	verifAssert(b1.String() == fresh, "a literal renders the same whatever the File rendered before")
	// and the other way round inside one statement
	both := &bytes.Buffer{}
	st := newStatement().Add(first).Add(target)
	verifAssert(st.render(NewFile("p"), both, nil) == nil, "no error")
	verifAssert(specSameCode(both.String(), b0.String()+" "+fresh), "two literals in one statement render as each alone")
}
