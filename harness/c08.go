package jen

import "bytes"

// C08: rendering is repeatable and import names are stable across renders.

func c08raw(c Code, f *File) (string, bool) {
	buf := &bytes.Buffer{}
	panicked := verifPanics(func() { c.render(f, buf, nil) })
	return buf.String(), panicked
}

func c08fileRaw(f *File) (string, bool) {
	buf := &bytes.Buffer{}
	panicked := verifPanics(func() { f.Render(buf) })
	return buf.String(), panicked
}

// a switch whose clauses use the case/default + block special form, with every kind of body item
func c08switch() *Statement {
	nbody := nondetChoice("nbody", 3)
	var body []Code
	for i := 0; i < nbody; i++ {
		item, _, _ := mkItem(slotNames[i], nondetChoice("kind_"+slotNames[i], 3)) // opaque | nil | nil statement
		body = append(body, item)
	}
	return Switch(&symCode{id: "tag"}).Block(
		Case(&symCode{id: "c0"}).Block(body...),
		Default().Block(&symCode{id: "d0"}),
	)
}

func H_C08_repeat() {
	impSummaries()
	canonicalMapOrder()
	f := NewFile("p")
	f.NoFormat = true
	p0 := leadPath(0)
	sw := c08switch()
	f.Add(&symCode{id: "i0"})
	f.Add(Qual(p0, "A"))
	f.Add(sw)
	o1, pan1 := c08fileRaw(f)
	verifAssert(!pan1, "first render does not panic")
	if pan1 {
		return
	}
	o2, pan2 := c08fileRaw(f)
	verifAssert(!pan2, "second render does not panic")
	if pan2 {
		return
	}
	verifAssert(o1 == o2, "rendering the same File twice yields identical bytes")
	o3, pan3 := c08fileRaw(f)
	verifAssert(!pan3 && o3 == o1, "and a third time")
	// the same statement with the same File, outside the File's own render
	s1, p1 := c08raw(sw, f)
	s2, p2 := c08raw(sw, f)
	verifAssert(!p1 && !p2 && s1 == s2, "rendering the same Statement with the same File twice yields identical bytes")
	g := sw.Clone()
	_ = g
}

// a freshly built statement rendered twice on its own (no File render in between)
func H_C08_statement_repeat() {
	f := NewFile("p")
	sw := c08switch()
	s1, p1 := c08raw(sw, f)
	verifAssert(!p1, "first render does not panic")
	if p1 {
		return
	}
	s2, p2 := c08raw(sw, f)
	verifAssert(!p2, "second render does not panic")
	if p2 {
		return
	}
	verifAssert(s1 == s2, "rendering the same Statement twice yields identical bytes")
	verifObserve("switch", s1)
}

// once a path has appeared under a name, later hints and additions do not change it
func H_C08_stable_names() {
	impSummaries()
	canonicalMapOrder()
	f := NewFile("p")
	impPrefix(f)
	p0, p1 := leadPath(0), leadPath(1)
	impHint(f, 0, p0)
	ref := Qual(p0, "X")
	first, _ := c08raw(ref, f)
	verifAssert(len(first) > 2, "rendered")
	if len(first) <= 2 {
		return
	}
	q0 := f.imports[p0].name
	verifAssert(first == q0+".X", "first output uses the registered name")
	steps := 1 + verifTier()
	stepNames := []string{"s0", "s1"}
	for k := 0; k < steps; k++ {
		switch nondetChoice("op_"+stepNames[k], 5) {
		case 0:
			h := nondetString("late_name_" + stepNames[k])
			verifAssume(verifMatch(h, reIdent))
			f.ImportName(p0, h)
		case 1:
			h := nondetString("late_alias_" + stepNames[k])
			verifAssume(verifMatch(h, reIdent))
			verifAssume(h != "_")
			f.ImportAlias(p0, h)
		case 2:
			f.ImportAlias(p0, ".")
		case 3:
			c08raw(Qual(p1, "Y"), f) // another package, possibly with the same base name
		case 4:
			f.ImportNames(map[string]string{p0: "other", p1: "another"})
		}
		again, pan := c08raw(ref, f)
		verifAssert(!pan, "no panic")
		verifAssert(again == first, "the path keeps the name it first appeared under")
		verifAssert(f.imports[p0].name == q0, "and the import table still declares it under that name")
	}
}

// names handed out while rendering a snippet with RenderWithFile are the File's names
func H_C08_snippet_then_file() {
	impSummaries()
	canonicalMapOrder()
	f := NewFile("p")
	f.NoFormat = true
	p0, p1 := leadPath(0), leadPath(1)
	if nondetBool("anon_first") {
		f.Anon(p0)
	}
	w := &bytes.Buffer{}
	err := Qual(p0, "X").Call().RenderWithFile(w, f)
	if err != nil {
		return
	}
	q0 := f.imports[p0].name
	verifAssert(q0 != "" && q0 != "_", "the snippet's reference is registered under a usable name")
	// the File goes on: another package with possibly the same base name, then the first path again
	a, _ := c08raw(Qual(p1, "Y"), f)
	b, _ := c08raw(Qual(p0, "Z"), f)
	verifAssert(b == q0+".Z", "the path keeps the name it had in the snippet")
	verifAssert(len(a) > 2, "rendered")
	if len(a) > 2 {
		verifAssert(a[:len(a)-2] != q0, "and no other path takes that name")
	}
}

// a File that is rendered, extended and rendered again gives exactly what an identically built
// File gives when rendered once
func H_C08_file_growth() {
	impSummaries()
	canonicalMapOrder()
	p0, p1, p2 := leadPath(0), leadPath(1), leadPath(2)
	build := func(upto int) *File {
		f := NewFile("p")
		f.NoFormat = true
		f.Add(Qual(p0, "A"))
		f.Add(Qual(p1, "B"))
		if upto >= 1 {
			switch nondetChoice("extension", 4) {
			case 0:
				f.Add(Qual("C", "x"))
			case 1:
				f.Add(Qual(p2, "D"))
			case 2:
				f.Anon(p2)
			case 3:
				f.Add(Qual(p0, "E"))
			}
		}
		return f
	}
	f := build(0)
	first, pan := c08fileRaw(f)
	verifAssert(!pan, "no panic")
	_ = first
	// extend the same File exactly as build(1) does
	switch nondetChoice("extension", 4) {
	case 0:
		f.Add(Qual("C", "x"))
	case 1:
		f.Add(Qual(p2, "D"))
	case 2:
		f.Anon(p2)
	case 3:
		f.Add(Qual(p0, "E"))
	}
	second, pan2 := c08fileRaw(f)
	fresh, pan3 := c08fileRaw(build(1))
	verifAssert(!pan2 && !pan3, "no panic")
	verifObserve("second", second)
	verifAssert(second == fresh, "an earlier render does not change what the extended File renders")
}

// the same for a path first referenced as a dot-import: hints added later do not turn it into a
// named import (the file would mix bare and qualified references to one package)
func H_C08_stable_dot() {
	impSummaries()
	canonicalMapOrder()
	f := NewFile("p")
	impPrefix(f)
	p0, p1 := leadPath(0), leadPath(1)
	f.ImportAlias(p0, ".")
	ref := Qual(p0, "X")
	first, _ := c08raw(ref, f)
	verifAssert(first == "X", "a dot-imported path is referenced by the bare name")
	steps := 1 + verifTier()
	stepNames := []string{"s0", "s1"}
	for k := 0; k < steps; k++ {
		switch nondetChoice("op_"+stepNames[k], 4) {
		case 0:
			h := nondetString("late_name_" + stepNames[k])
			verifAssume(verifMatch(h, reIdent))
			f.ImportName(p0, h)
		case 1:
			h := nondetString("late_alias_" + stepNames[k])
			verifAssume(verifMatch(h, reIdent))
			verifAssume(h != "_")
			f.ImportAlias(p0, h)
		case 2:
			c08raw(Qual(p1, "Y"), f)
		case 3:
			f.ImportNames(map[string]string{p0: "other", p1: "another"})
		}
		again, pan := c08raw(ref, f)
		verifAssert(!pan, "no panic")
		verifAssert(again == first, "the path keeps the name it first appeared under")
		verifAssert(f.imports[p0].name == ".", "and the import table still declares it as a dot-import")
	}
}

// every File-level feature at once (header and package comments, cgo preamble, anonymous import,
// canonical path, a cgo reference, a Dict, a Tag, comments in the body): three renders, raw and
// formatted, give the same bytes, and GoString agrees with the formatted render
func H_C08_repeat_rich() {
	impSummaries()
	canonicalMapOrder()
	p0 := leadPath(0)
	build := func(noFormat bool) *File {
		f := NewFilePathName("local.example/x", "x")
		f.NoFormat = noFormat
		// comment shapes are C15's subject: one-line texts here
		h, pc, cm := nondetString("header"), nondetString("pkgcomment"), nondetString("comment")
		verifAssume(!verifHasPrefix(h, "/") && !verifContainsNewline(h))
		verifAssume(!verifHasPrefix(pc, "/") && !verifContainsNewline(pc))
		verifAssume(!verifHasPrefix(cm, "/") && !verifContainsNewline(cm))
		f.HeaderComment(h)
		f.PackageComment(pc)
		f.CgoPreamble("#include <stdlib.h>")
		f.Anon("z.example/anon")
		f.CanonicalPath = nondetString("canonical")
		f.Add(Qual("C", "free").Call(Nil()))
		f.Add(Qual(p0, "A"))
		f.Add(Qual("local.example/x", "Own"))
		f.Add(Id("T").Values(Dict{Id("b"): Lit(1), Id("a"): Lit(nondetString("s"))}))
		f.Add(Id("F").String().Tag(map[string]string{"json": "x,omitempty", "a": "b"}))
		f.Add(Comment(cm))
		return f
	}
	f := build(true)
	o1, pan1 := c08fileRaw(f)
	o2, pan2 := c08fileRaw(f)
	o3, pan3 := c08fileRaw(f)
	verifAssert(!pan1 && !pan2 && !pan3, "no panic")
	verifObserve("raw", o1)
	verifAssert(o1 == o2 && o2 == o3, "rendering the same File three times yields identical bytes")
	fresh, _ := c08fileRaw(build(true))
	verifAssert(fresh == o1, "and the bytes of an identically built File")
	if !specGofmtOK(o1) {
		return
	}
	g := build(false)
	b1, b2 := &bytes.Buffer{}, &bytes.Buffer{}
	e1 := g.Render(b1)
	e2 := g.Render(b2)
	verifAssert(e1 == nil && e2 == nil, "formatted renders succeed")
	verifAssert(b1.String() == b2.String() && b1.String() == specGofmt(o1), "formatted renders are identical and are gofmt of the raw rendering")
	var gs string
	pan := verifPanics(func() { gs = g.GoString() })
	verifAssert(!pan && gs == b1.String(), "GoString agrees with Render")
}
