package jen

import "bytes"

// C04: the import block is exact: used paths and anonymous imports, nothing else.

func H_C04_exact() {
	impSummaries()
	canonicalMapOrder()
	f := NewFile("p")
	f.NoFormat = true
	p0, p1, p2, p3, p4 := leadPath(0), leadPath(1), leadPath(2), leadPath(3), leadPath(4)
	// hints for a path that is never referenced, and hints that name referenced ones
	switch 1 + nondetChoice("unused_hint", 2) {
	case 1:
		f.ImportName(p3, "unusedname")
	case 2:
		f.ImportAlias(p3, "unusedalias")
	}
	f.ImportNames(map[string]string{"never/used/a": "a", "never/used/b": "b"})
	// the path used as a Dict key may be declared a dot-import: it is imported iff its pair renders
	dot2 := nondetBool("dot_hint_on_dict_key_path")
	if dot2 {
		f.ImportAlias(p2, ".")
	}
	anon := nondetBool("anon")
	if anon {
		f.Anon(p4)
	}
	// body: a top-level reference, a reference nested in a list next to an opaque item,
	// a Dict pair whose key is a reference and whose value may be null, and a
	// type-parameter list that is empty.
	top := nondetBool("top")
	if top {
		f.Add(Qual(p0, "A"))
	}
	nested := nondetBool("nested")
	inner := &symCode{id: "i0"}
	if nested {
		f.Add(Id("x").Call(inner, Qual(p1, "B")))
	}
	dictVal := &symCode{id: "i1"}
	dict := nondetBool("dict")
	if dict {
		f.Add(Id("T").Values(Dict{Qual(p2, "K"): dictVal}))
	}
	f.Add(Id("G").Types(Null(), nil))
	if verifTier() > 0 {
		f.Add(&symCode{id: "i2"})
	}
	buf := &bytes.Buffer{}
	err := f.Render(buf)
	verifAssert(err == nil, "render succeeds")
	valNull := nondetBool("null_i1")
	var entries []refImp
	want0 := top
	want1 := nested
	want2 := dict && !valNull
	verifAssert((f.imports[p0].name != "") == want0, "top-level reference imported iff rendered")
	verifAssert((f.imports[p1].name != "") == want1, "nested reference imported iff rendered")
	verifAssert((f.imports[p2].name != "") == want2, "Dict key reference imported iff its pair is rendered")
	verifAssert(f.imports[p3].name == "", "a hint for an unreferenced path produces no import")
	verifAssert(f.imports["never/used/a"].name == "" && f.imports["never/used/b"].name == "", "unused ImportNames entries produce no import")
	if want0 {
		entries = append(entries, refImp{p0, f.imports[p0].name, f.imports[p0].alias})
	}
	if want1 {
		entries = append(entries, refImp{p1, f.imports[p1].name, f.imports[p1].alias})
	}
	if want2 {
		entries = append(entries, refImp{p2, f.imports[p2].name, f.imports[p2].alias})
	}
	if anon {
		verifAssert(f.imports[p4].name == "_" && f.imports[p4].alias, "anonymous import kept")
		entries = append(entries, refImp{p4, "_", true})
	}
	n := 0
	for range entries {
		n++
	}
	verifAssert(len(f.imports) == n, "nothing else is imported")
	ib := &bytes.Buffer{}
	f.renderImports(ib)
	verifObserve("imports", ib.String())
	verifAssert(ib.String() == refImportBlock(entries, nil), "import block lists exactly the used and anonymous paths, each once")
	verifAssert(verifHasPrefix(buf.String(), "package p\n\n"+ib.String()), "the rendered file has that import block right after the package clause")
}

// Dict pairs: a key's package is imported iff its own pair is rendered, whatever the other pairs
// of the same Dict do (a Dict with at least one rendered pair is rendered, the omitted pairs of it
// must leave no trace)
func H_C04_dict_pairs() {
	impSummaries()
	canonicalMapOrder()
	f := NewFile("p")
	f.NoFormat = true
	p0, p1 := leadPath(0), leadPath(1)
	v0, v1 := &symCode{id: "i0"}, &symCode{id: "i1"}
	var d Dict
	switch nondetChoice("shape", 3) {
	case 0:
		d = Dict{Qual(p0, "K"): v0, Qual(p1, "L"): v1}
	case 1:
		d = Dict{Qual(p0, "K"): v0, &leadCode{id: "k1", lead: "z"}: v1}
	case 2:
		// the reference sits in the value of a pair whose key is null
		d = Dict{Null(): Qual(p0, "K"), Qual(p1, "L"): v1}
	}
	f.Add(Id("T").Values(d))
	buf := &bytes.Buffer{}
	err := f.Render(buf)
	verifAssert(err == nil, "render succeeds")
	null0, null1 := nondetBool("null_i0"), nondetBool("null_i1")
	var entries []refImp
	switch nondetChoice("shape", 3) {
	case 0:
		verifAssert((f.imports[p0].name != "") == !null0, "Dict key reference imported iff its pair is rendered")
		verifAssert((f.imports[p1].name != "") == !null1, "Dict key reference imported iff its pair is rendered")
		if !null0 {
			entries = append(entries, refImp{p0, f.imports[p0].name, f.imports[p0].alias})
		}
		if !null1 {
			entries = append(entries, refImp{p1, f.imports[p1].name, f.imports[p1].alias})
		}
	case 1:
		verifAssert((f.imports[p0].name != "") == !null0, "Dict key reference imported iff its pair is rendered")
		if !null0 {
			entries = append(entries, refImp{p0, f.imports[p0].name, f.imports[p0].alias})
		}
	case 2:
		verifAssert(f.imports[p0].name == "", "the value of a pair with a null key is not rendered, so not imported")
		verifAssert((f.imports[p1].name != "") == !null1, "Dict key reference imported iff its pair is rendered")
		if !null1 {
			entries = append(entries, refImp{p1, f.imports[p1].name, f.imports[p1].alias})
		}
	}
	n := 0
	for range entries {
		n++
	}
	verifAssert(len(f.imports) == n, "nothing else is imported")
	ib := &bytes.Buffer{}
	f.renderImports(ib)
	verifAssert(ib.String() == refImportBlock(entries, nil), "import block lists exactly the used paths, each once")
}
