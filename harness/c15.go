package jen

import "bytes"

// C15: comments are contained and preserved; file-level comments are placed right.

const reOneComment = `//[^\n]*|/\*([^*]|\*+[^*/])*\*+/`

func c15text(name string) string {
	c := nondetString(name)
	// the property's domain: text that is not itself a comment and cannot close a block comment
	verifAssume(!verifHasPrefix(c, "//"))
	verifAssume(!verifHasPrefix(c, "/*"))
	verifAssume(!verifContains(c, "*/"))
	return c
}

func H_C15_comment_token() {
	c := c15text("text")
	var st *Statement
	switch nondetChoice("form", 3) {
	case 0:
		st = Comment(c)
	case 1:
		st = Commentf("%s", c)
	case 2:
		st = newStatement().Comment(c)
	}
	out, err := renderOne(st)
	verifAssert(err == nil, "no error")
	verifObserve("out", out)
	verifAssert(out == refComment(c), "line style for one-line text, block style otherwise, text verbatim inside")
	verifAssert(specIsOneComment(out), "the rendering is exactly one comment token: nothing leaks out of it")
	if !verifContainsNewline(c) {
		verifAssert(!verifContainsNewline(out), "a line comment stays on its line")
	}
}

// a trailing comment on every item of the multi-line constructs: the next byte is a newline,
// so the comment can never swallow the following item or the closing token
func H_C15_containment() {
	maxN := 2 + verifTier()
	n := 1 + nondetChoice("n", maxN)
	var items []Code
	want := ""
	for i := 0; i < n; i++ {
		code := &symCode{id: slotNames[i]}
		verifAssume(!nondetBool("null_" + slotNames[i]))
		c := c15text("text_" + slotNames[i])
		verifAssume(!verifContainsNewline(c))
		mode := nondetChoice("mode_"+slotNames[i], 2)
		if mode == 0 {
			// comment at the end of an item
			items = append(items, Add(code).Comment(c))
			want += "\n" + nondetString("out_"+slotNames[i]) + " // " + c
		} else {
			// comment as an item of its own
			items = append(items, Comment(c))
			want += "\n// " + c
		}
	}
	var st *Statement
	open, close := "", ""
	switch nondetChoice("construct", 5) {
	case 0:
		st, open, close = Block(items...), "{", "}"
	case 1:
		st, open, close = Defs(items...), "(", ")"
	case 2:
		st, open, close = Struct(items...), "struct{", "}"
	case 3:
		st, open, close = Interface(items...), "interface{", "}"
	case 4:
		// a case body: no braces of its own, the enclosing block closes on the next line
		st = Block(Case(&symCode{id: "cond"}).Block(items...))
		verifAssume(!nondetBool("null_cond"))
		open, close = "{\ncase "+nondetString("out_cond")+": ", "\n}"
		want += "" // items follow the colon, one per line
	}
	f := NewFile("p")
	buf := &bytes.Buffer{}
	err := st.render(f, buf, nil)
	verifAssert(err == nil, "no error")
	out := buf.String()
	verifObserve("out", out)
	if nondetChoice("construct", 5) == 4 {
		verifAssert(out == open+want+close, "every comment in a case body is followed by a newline before the next token")
	} else {
		verifAssert(out == open+want+"\n"+close, "every comment is followed by a newline before the next item or the closing token")
	}
}

// header comments, package comments and the canonical import path annotation
func H_C15_file_level() {
	f := NewFile(nondetString("pkgname"))
	f.NoFormat = true
	nh := nondetChoice("nheaders", 3)
	np := nondetChoice("npkgcomments", 3)
	want := ""
	hs := []string{"h0", "h1"}
	ps := []string{"c0", "c1"}
	for i := 0; i < nh; i++ {
		c := c15text(hs[i])
		f.HeaderComment(c)
		want += refComment(c) + "\n"
	}
	if nh > 0 {
		// a blank line keeps header text out of the package doc
		want += "\n"
	}
	for i := 0; i < np; i++ {
		c := c15text(ps[i])
		f.PackageComment(c)
		want += refComment(c) + "\n"
	}
	want += "package " + nondetString("pkgname")
	if nondetBool("canonical_set") {
		cp := nondetString("canonical")
		verifAssume(cp != "")
		f.CanonicalPath = cp
		want += " // import " + specQuote(cp)
	}
	want += "\n\n"
	body := &symCode{id: "body"}
	verifAssume(!nondetBool("null_body"))
	f.Add(body)
	want += "\n" + nondetString("out_body")
	buf := &bytes.Buffer{}
	err := f.Render(buf)
	verifAssert(err == nil, "no error")
	verifObserve("file", buf.String())
	verifAssert(buf.String() == want, "headers, blank line, package comments directly above the clause, canonical path annotation, body")
}
