package jen

// Reference printer (DESIGN.md §4.3): what the documentation says a list of items
// renders to. Written from the README's description of items, separators,
// Null/Empty and multi-line groups — it is the oracle the real renderer is
// compared with, executed symbolically like the harness and natively in replays.

// refGroup: the text of a group with the given delimiters whose i-th item is
// null iff nulls[i] and otherwise renders texts[i].
func refGroup(name, open, close, sep string, multi bool, nulls []bool, texts []string) string {
	allNull := true
	for i := range nulls {
		if !nulls[i] {
			allNull = false
		}
	}
	if name == "types" && allNull {
		// an empty type-parameter / type-argument list renders nothing at all
		return ""
	}
	out := open
	first := true
	for i := range texts {
		if nulls[i] {
			continue
		}
		if !first {
			out += sep
		}
		if multi {
			out += "\n"
		}
		out += texts[i]
		first = false
	}
	if !first && multi && close != "" {
		if sep == "," {
			out += ","
		}
		out += "\n"
	}
	out += close
	return out
}

// refGroupNull: a group is null iff it has no delimiters and all items are null.
func refGroupNull(open, close string, nulls []bool) bool {
	if open != "" || close != "" {
		return false
	}
	for i := range nulls {
		if !nulls[i] {
			return false
		}
	}
	return true
}

// refStatement: the non-null items separated by single spaces.
func refStatement(nulls []bool, texts []string) string {
	out := ""
	first := true
	for i := range texts {
		if nulls[i] {
			continue
		}
		if !first {
			out += " "
		}
		out += texts[i]
		first = false
	}
	return out
}

func refAllNull(nulls []bool) bool {
	for i := range nulls {
		if !nulls[i] {
			return false
		}
	}
	return true
}

// refComment: how a comment text is rendered.
func refComment(c string) string {
	if len(c) >= 2 && (c[:2] == "//" || c[:2] == "/*") {
		return c
	}
	if verifContainsNewline(c) {
		if verifMatch(c, `.*\n`) {
			return "/*\n" + c + "*/"
		}
		return "/*\n" + c + "\n*/"
	}
	return "// " + c
}
