package jen

import "strings"

// Reference printer (DESIGN.md §4.3): what the documentation says a list of items
// renders to. Written from the README's description of items, separators,
// Null/Empty and multi-line groups — it is the oracle the real renderer is
// compared with, executed symbolically like the harness and natively in replays.

// refGroup: the text of a group with the given delimiters whose i-th item is
// null iff nulls[i] and otherwise renders texts[i].
func refGroup(name, open, close, sep string, multi bool, nulls []bool, texts []string) string {
	allNull := true
	for i := range nulls {
		if !nulls[i] {
			allNull = false
		}
	}
	if name == "types" && allNull {
		// an empty type-parameter / type-argument list renders nothing at all
		return ""
	}
	out := open
	first := true
	for i := range texts {
		if nulls[i] {
			continue
		}
		if !first {
			out += sep
		}
		if multi {
			out += "\n"
		}
		out += texts[i]
		first = false
	}
	if !first && multi && close != "" {
		if sep == "," {
			out += ","
		}
		out += "\n"
	}
	out += close
	return out
}

// refGroupNull: a group is null iff it has no delimiters and all items are null.
func refGroupNull(open, close string, nulls []bool) bool {
	if open != "" || close != "" {
		return false
	}
	for i := range nulls {
		if !nulls[i] {
			return false
		}
	}
	return true
}

// refStatement: the non-null items separated by single spaces.
func refStatement(nulls []bool, texts []string) string {
	out := ""
	first := true
	for i := range texts {
		if nulls[i] {
			continue
		}
		if !first {
			out += " "
		}
		out += texts[i]
		first = false
	}
	return out
}

func refAllNull(nulls []bool) bool {
	for i := range nulls {
		if !nulls[i] {
			return false
		}
	}
	return true
}

// refComment: how a comment text is rendered.
func refComment(c string) string {
	if strings.HasPrefix(c, "//") || strings.HasPrefix(c, "/*") {
		return c
	}
	if strings.Contains(c, "\n") {
		if strings.HasSuffix(c, "\n") {
			return "/*\n" + c + "*/"
		}
		return "/*\n" + c + "\n*/"
	}
	return "// " + c
}

// ---- reference import block (README: imports are sorted by path, aliased only when needed;
// the cgo import is separate, below its preamble, when a preamble exists)

type refImp struct {
	path  string
	name  string
	alias bool
}

func refImpSpec(e refImp) string {
	if e.alias && e.path != "C" {
		return e.name + " " + specQuote(e.path)
	}
	return specQuote(e.path)
}

// refImportBlock: entries are all registered imports (including "C" if used),
// in any order; preamble are the cgo preamble comments.
func refImportBlock(entries []refImp, preamble []string) string {
	hasC := len(preamble) > 0
	for _, e := range entries {
		if e.path == "C" {
			hasC = true
		}
	}
	separate := hasC && len(preamble) > 0
	var main []refImp
	for _, e := range entries {
		if e.path == "C" && separate {
			continue
		}
		// insertion sort by path
		main = append(main, e)
		for j := len(main) - 1; j > 0 && main[j].path < main[j-1].path; j-- {
			main[j], main[j-1] = main[j-1], main[j]
		}
	}
	out := ""
	if len(main) == 1 {
		out = "import " + refImpSpec(main[0]) + "\n\n"
	} else if len(main) > 1 {
		out = "import (\n"
		for _, e := range main {
			out += refImpSpec(e) + "\n"
		}
		out += ")\n\n"
	}
	if separate {
		for _, c := range preamble {
			out += refComment(c) + "\n"
		}
		out += "import \"C\"\n\n"
	}
	return out
}
