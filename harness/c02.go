package jen

import "bytes"

// C02: a successful render is valid Go and exactly gofmt of the raw rendering.
// "Parses as Go" is go/format.Source's contract for a nil error (trusted); what is decided
// here is that the formatter is applied exactly once, to exactly the raw rendering, that its
// verdict is what Render returns, and that no composition of elements makes rendering panic.

func c02File(noFormat bool, n int) *File {
	var f *File
	switch nondetChoice("ctor", 3) {
	case 0:
		f = NewFile(nondetString("pkgname"))
	case 1:
		f = NewFilePath("local.example/" + nondetString("localpath"))
	case 2:
		f = NewFilePathName("local.example/"+nondetString("localpath"), nondetString("pkgname"))
	}
	f.NoFormat = noFormat
	if verifTier() > 0 && n < 2 {
		impPrefix(f)
	}
	// comment shapes are C15's subject: one-line texts here
	if nondetBool("has_header") {
		h := nondetString("header")
		verifAssume(!verifHasPrefix(h, "/") && !verifContainsNewline(h))
		f.HeaderComment(h)
	}
	if nondetBool("has_preamble") {
		c := nondetString("preamble")
		verifAssume(!verifHasPrefix(c, "/") && !verifContainsNewline(c))
		f.CgoPreamble(c)
	}
	if nondetBool("has_anon") {
		f.Anon("z" + nondetString("anonpath"))
	}
	f.CanonicalPath = nondetString("canonical")
	p := leadPath(0)
	impHint(f, 0, p)
	f.Add(Qual(p, "X"))
	f.Add(c10Children(n)...)
	return f
}

func H_C02_file() {
	impSummaries()
	canonicalMapOrder()
	n := nondetChoice("n", 2+verifTier())
	rawBuf := &bytes.Buffer{}
	rawErr := c02File(true, n).Render(rawBuf)
	raw := rawBuf.String()
	calls0 := verifFormatCalls()
	out := &bytes.Buffer{}
	err := c02File(false, n).Render(out)
	if rawErr != nil {
		verifAssert(err != nil, "a failing element fails the formatted render as well")
		return
	}
	if calls0 >= 0 {
		verifAssert(verifFormatCalls() == calls0+1, "the formatter is applied exactly once")
	}
	verifAssert((err == nil) == specGofmtOK(raw), "Render returns nil exactly when the raw rendering is valid Go")
	if err == nil {
		verifObserve("out", out.String())
		verifAssert(out.String() == specGofmt(raw), "the bytes written are gofmt of what the same File renders with NoFormat")
	} else {
		verifAssert(out.String() == "", "nothing is emitted as if valid")
	}
}

func H_C02_fragment() {
	n := nondetChoice("n", 3+verifTier())
	rawBuf := &bytes.Buffer{}
	out := &bytes.Buffer{}
	var rawErr, err error
	f1, f2 := NewFile("p"), NewFile("p")
	kind := nondetChoice("kind", 5)
	if kind == 0 {
		s := &Statement{}
		s.Add(c10Children(n)...)
		rawErr = s.render(f1, rawBuf, nil)
		err = s.RenderWithFile(out, f2)
	} else if kind >= 2 {
		// statements made of real tokens with arbitrary (possibly nonsensical) text
		var s *Statement
		switch kind {
		case 2:
			s = Id(nondetString("name"))
		case 3:
			s = Lit(nondetString("text"))
		default:
			s = Id(nondetString("name")).Op(nondetString("op")).Lit(nondetInt("v", -9, 9))
		}
		rawErr = s.render(f1, rawBuf, nil)
		if nondetBool("via_render") {
			err = s.Render(out)
		} else {
			err = s.RenderWithFile(out, f2)
		}
	} else {
		g := &Group{open: nondetString("open"), close: nondetString("close"), separator: nondetString("sep"), multi: nondetBool("multi"), items: c10Children(n)}
		rawErr = g.render(f1, rawBuf, nil)
		err = g.RenderWithFile(out, f2)
	}
	raw := rawBuf.String()
	if rawErr != nil {
		verifAssert(err != nil, "a failing element fails the render")
		return
	}
	verifAssert((err == nil) == specGofmtOK(raw), "nil exactly when the fragment is valid Go")
	if err == nil {
		verifAssert(out.String() == specGofmt(raw), "the bytes are gofmt of the fragment")
	}
}

// arbitrary, including nonsensical, compositions never panic: every container kind with
// children drawn from nil, typed nils, Null, Empty, empty and nil Dicts, and opaque elements
func c02Child(slot string) Code {
	switch nondetChoice("child_"+slot, 8) {
	case 0:
		return &symCode{id: slot}
	case 1:
		return nil
	case 2:
		var s *Statement
		return s
	case 3:
		var g *Group
		return g
	case 4:
		var d Dict
		return d
	case 5:
		return Dict{}
	case 6:
		return Dict{&symCode{id: slot + "k"}: nil}
	case 7:
		return Empty()
	}
	return Null()
}

func H_C02_nopanic() {
	a, b := c02Child("i0"), c02Child("i1")
	var st *Statement
	switch nondetChoice("container", 10) {
	case 0:
		st = List(a, b)
	case 1:
		st = Id("f").Call(a, b)
	case 2:
		st = Index(a, b)
	case 3:
		st = Block(a, b)
	case 4:
		st = Id("T").Types(a, b)
	case 5:
		st = Switch(a).Block(Case(b).Block(a), Default().Block(b))
	case 6:
		st = Add(a, b)
	case 7:
		st = Id("T").Values(Dict{Id("k"): a, Id("l"): b})
	case 8:
		st = Union(a, b)
	case 9:
		st = Id("T").Values(a)
	}
	f := NewFile("p")
	f.Add(st)
	out := &bytes.Buffer{}
	panicked := verifPanics(func() { f.Render(out) })
	verifAssert(!panicked, "no composition of elements makes Render panic")
	if !panicked {
		panicked = verifPanics(func() { st.isNull(f) })
		verifAssert(!panicked, "nor the null test")
	}
}

// Values(Dict, other items): an invalid composition; it must be reported as an error, not a panic
func H_C02_values_dict_and_more() {
	st := Id("T").Values(Dict{Id("k"): &symCode{id: "v"}}, &symCode{id: "x"})
	verifAssume(!nondetBool("null_v") && !nondetBool("null_x"))
	f := NewFile("p")
	f.Add(st)
	out := &bytes.Buffer{}
	var err error
	panicked := verifPanics(func() { err = f.Render(out) })
	verifAssertKnown(!panicked && err != nil, "Values with a Dict next to other items is reported as an error, not a panic", panicked, "C02-values-dict-panics")
}

// a File rendered (formatted), then given another setting, then rendered again: the second
// output is gofmt of the second raw rendering (nothing of the first render may be reused blindly)
func H_C02_rerender_after_setting() {
	build := func(noFormat bool, withChange bool) *File {
		f := NewFile("p")
		f.NoFormat = noFormat
		f.Add(Var().Id("x").Op("=").Lit(1))
		if withChange {
			c02Change(f)
		}
		return f
	}
	raw1, raw2 := &bytes.Buffer{}, &bytes.Buffer{}
	verifAssert(build(true, false).Render(raw1) == nil, "raw render")
	verifAssert(build(true, true).Render(raw2) == nil, "raw render")
	f := build(false, false)
	out1 := &bytes.Buffer{}
	err1 := f.Render(out1)
	c02Change(f)
	out2 := &bytes.Buffer{}
	err2 := f.Render(out2)
	if err1 != nil || !specGofmtOK(raw2.String()) {
		return
	}
	verifAssert(err2 == nil, "the second render succeeds when its raw rendering is valid Go")
	if err2 == nil {
		verifObserve("second", out2.String())
		verifAssert(out2.String() == specGofmt(raw2.String()), "the second formatted render is gofmt of the second raw rendering")
	}
}

func c02Change(f *File) {
	switch nondetChoice("change", 5) {
	case 0:
		f.Anon("z" + nondetString("anonpath"))
	case 1:
		c := nondetString("pkgcomment")
		verifAssume(!verifHasPrefix(c, "/") && !verifContainsNewline(c))
		f.PackageComment(c)
	case 2:
		c := nondetString("header")
		verifAssume(!verifHasPrefix(c, "/") && !verifContainsNewline(c))
		f.HeaderComment(c)
	case 3:
		f.CanonicalPath = nondetString("canonical")
	case 4:
		f.CgoPreamble("#include <stdio.h>")
	}
}
