package jen

import "bytes"

// C14: all forms of a construct are equivalent; callbacks run once, at build time.
// The per-construct harnesses H_C14_gen_* are generated from the package's API at check time
// (engine/gen.go); this file holds their helpers and the hand-written callback harnesses.

func c14raw(c Code, f *File) (string, bool) {
	buf := &bytes.Buffer{}
	panicked := verifPanics(func() { c.render(f, buf, nil) })
	return buf.String(), panicked
}

// GoString, Render and RenderWithFile with a fresh File agree (all are gofmt of the raw rendering)
func c14entryPoints(s *Statement, raw string) {
	if !specGofmtOK(raw) {
		return
	}
	want := specGofmt(raw)
	b1 := &bytes.Buffer{}
	verifAssert(s.Render(b1) == nil && b1.String() == want, "Render writes the formatted rendering")
	b2 := &bytes.Buffer{}
	verifAssert(s.RenderWithFile(b2, NewFile("")) == nil && b2.String() == want, "RenderWithFile with a fresh File agrees")
	var gs string
	panicked := verifPanics(func() { gs = s.GoString() })
	verifAssert(!panicked && gs == want, "GoString agrees")
}

func H_C14_callbacks() {
	f := NewFile("p")
	calls := 0
	var st *Statement
	want := ""
	switch nondetChoice("kind", 7) {
	case 0:
		st = Do(func(s *Statement) { calls++; s.Id(nondetString("name")) })
		want = nondetString("name")
	case 1:
		st = Id("x").Do(func(s *Statement) { calls++; s.Id(nondetString("name")) })
		want = "x " + nondetString("name")
	case 2:
		d := DictFunc(func(d Dict) { calls++; d[&leadCode{id: "k0", lead: "a"}] = &symCode{id: "v0"} })
		verifAssert(calls == 1, "DictFunc runs its callback once, immediately")
		verifAssume(!nondetBool("null_k0") && !nondetBool("null_v0"))
		st = Values(d)
		want = "{a" + nondetString("out_k0") + ":" + nondetString("out_v0") + "}"
	case 3:
		st = LitFunc(func() interface{} { calls++; return nondetInt("v", -1000, 1000) })
		want = verifItoa(nondetInt("v", -1000, 1000))
	case 4:
		st = LitRuneFunc(func() rune { calls++; return 'x' })
		want = "'x'"
	case 5:
		st = LitByteFunc(func() byte { calls++; return byte(7) })
		want = "byte(0x7)"
	case 6:
		st = CustomFunc(Options{Open: nondetString("open"), Close: nondetString("close"), Separator: nondetString("sep")}, func(g *Group) { calls++; g.Add(&symCode{id: "a0"}) })
		verifAssume(!nondetBool("null_a0"))
		want = nondetString("open") + nondetString("out_a0") + nondetString("close")
	}
	verifAssert(calls == 1, "the callback has run exactly once when the constructing call returns")
	r1, _ := c14raw(st, f)
	r2, _ := c14raw(st, f)
	verifAssert(calls == 1, "rendering never re-runs a callback")
	verifObserve("out", r1)
	verifAssert(r1 == want && r2 == want, "the callback's result is what is rendered, every time")
}

// string-argument constructs in their three forms
func H_C14_string_forms() {
	s := nondetString("s")
	f := NewFile("p")
	var a, b, c *Statement
	g := &Group{}
	switch nondetChoice("kind", 4) {
	case 0:
		a, b, c = Id(s), newStatement().Id(s), g.Id(s)
	case 1:
		a, b, c = Op(s), newStatement().Op(s), g.Op(s)
	case 2:
		a, b, c = Comment(s), newStatement().Comment(s), g.Comment(s)
	case 3:
		a, b, c = Dot(s), newStatement().Dot(s), g.Dot(s)
	}
	ra, _ := c14raw(a, f)
	rb, _ := c14raw(b, f)
	rc, _ := c14raw(c, f)
	verifAssert(ra == rb && ra == rc, "the three forms render identically")
	verifAssert(len(g.items) == 1 && verifSameObject(g.items[0], c), "the *Group form appends the new statement and returns it")
}

// the *Group form always appends a NEW statement: chaining on what it returns must not
// modify the arguments, which may be reused elsewhere
func H_C14_group_form_is_fresh() {
	f := NewFile("p")
	g := &Group{}
	x := Id(nondetString("x"))
	var s *Statement
	switch nondetChoice("ctor", 4) {
	case 0:
		s = g.Add(x)
	case 1:
		s = g.Parens(x)
	case 2:
		s = g.List(x)
	case 3:
		s = g.Add(x, x)
	}
	verifAssert(!verifSameObject(s, x), "the *Group form returns a new statement, not its argument")
	before, _ := c14raw(x, f)
	s.Id(nondetString("suffix"))
	after, _ := c14raw(x, f)
	verifAssert(before == after && after == nondetString("x"), "chaining on the returned statement leaves the argument untouched")
	verifAssert(len(g.items) == 1 && verifSameObject(g.items[0], s), "the group holds exactly the returned statement")
	// the same for the package-level and *Statement forms of Add
	y := Id(nondetString("y"))
	a := Add(y)
	a.Id("z")
	ry, _ := c14raw(y, f)
	verifAssert(ry == nondetString("y"), "Add does not alias its argument")
}

// value-argument constructs (literals, qualified identifiers, tags, custom groups, formatted
// comments) in their three forms, and the Func variants in their method forms
func H_C14_value_forms() {
	f := NewFile("p")
	var a, b, c *Statement
	g := &Group{}
	calls := 0
	wantCalls := 0
	switch nondetChoice("kind", 14) {
	case 12:
		// a format without parameters still goes through the formatter in every form
		a, b, c = Commentf("100%%"), newStatement().Commentf("100%%"), g.Commentf("100%%")
		want, _ := c14raw(Comment("100%"), f)
		got, _ := c14raw(a, f)
		verifAssert(got == want, "Commentf is Comment of the formatted text")
	case 13:
		a, b, c = Commentf("a %s b", "x"), newStatement().Commentf("a %s b", "x"), g.Commentf("a %s b", "x")
		want, _ := c14raw(Comment("a x b"), f)
		got, _ := c14raw(a, f)
		verifAssert(got == want, "Commentf is Comment of the formatted text")
	case 0:
		v := nondetInt("v", -1000000, 1000000)
		a, b, c = Lit(v), newStatement().Lit(v), g.Lit(v)
	case 1:
		s := nondetString("s")
		a, b, c = Lit(s), newStatement().Lit(s), g.Lit(s)
	case 2:
		r := rune(nondetInt("r", 0, 0x10ffff))
		a, b, c = LitRune(r), newStatement().LitRune(r), g.LitRune(r)
	case 3:
		v := byte(nondetInt("b", 0, 255))
		a, b, c = LitByte(v), newStatement().LitByte(v), g.LitByte(v)
	case 4:
		impSummaries()
		p, n := leadPath(0), nondetString("name")
		a, b, c = Qual(p, n), newStatement().Qual(p, n), g.Qual(p, n)
	case 5:
		s := nondetString("s")
		a, b, c = Commentf("%s", s), newStatement().Commentf("%s", s), g.Commentf("%s", s)
		want, _ := c14raw(Comment(s), f)
		got, _ := c14raw(a, f)
		verifAssert(got == want, "Commentf is Comment of the formatted text")
	case 6:
		k, v := nondetString("k"), nondetString("val")
		a, b, c = Tag(map[string]string{k: v}), newStatement().Tag(map[string]string{k: v}), g.Tag(map[string]string{k: v})
	case 7:
		o := Options{Open: nondetString("open"), Close: nondetString("close"), Separator: nondetString("sep"), Multi: nondetBool("multi")}
		x, y := &symCode{id: "a0"}, &symCode{id: "a1"}
		a, b, c = Custom(o, x, y), newStatement().Custom(o, x, y), g.Custom(o, x, y)
	case 8:
		cb := func() interface{} { calls++; return nondetInt("v", -1000, 1000) }
		a, b, c = LitFunc(cb), newStatement().LitFunc(cb), g.LitFunc(cb)
		wantCalls = 3
	case 9:
		cb := func() rune { calls++; return rune(nondetInt("r", 32, 126)) }
		a, b, c = LitRuneFunc(cb), newStatement().LitRuneFunc(cb), g.LitRuneFunc(cb)
		wantCalls = 3
	case 10:
		cb := func() byte { calls++; return byte(nondetInt("b", 0, 255)) }
		a, b, c = LitByteFunc(cb), newStatement().LitByteFunc(cb), g.LitByteFunc(cb)
		wantCalls = 3
	case 11:
		cb := func(s *Statement) { calls++; s.Id(nondetString("name")) }
		a, b, c = Do(cb), newStatement().Do(cb), g.Do(cb)
		wantCalls = 3
	}
	verifAssert(calls == wantCalls, "each constructing call runs its callback exactly once, immediately")
	ra, _ := c14raw(a, f)
	rb, _ := c14raw(b, f)
	rc, _ := c14raw(c, f)
	verifAssert(calls == wantCalls, "rendering never re-runs a callback")
	verifObserve("out", ra)
	verifAssert(ra == rb && ra == rc, "the three forms render identically")
	verifAssert(len(g.items) == 1 && verifSameObject(g.items[0], c), "the *Group form appends the new statement and returns it")
}
