package jen

// Shared helpers for the import-naming harnesses (C03, C04, C05, C06, C18, C19).

var pathNames = []string{"p0", "p1", "p2", "p3", "p4"}
var hintNames = []string{"h0", "h1", "h2", "h3", "h4"}

const reIdent = `[A-Za-z_][A-Za-z0-9_]*`

// impSummaries: callees replaced by contracts that the lemma harnesses
// (H_*_lemma_*) prove on the real code in the same run.
func impSummaries() {
	verifSummarise("guessAlias")
	verifSummarise("IsReservedWord")
	verifOrderInsensitive("isValidAlias")
}

// canonicalMapOrder: explore one (insertion) order of every map range. Independence of
// the output from the iteration order is C07's obligation, discharged there over all orders.
func canonicalMapOrder() { verifMapOrderAll(false) }

// impPath: an arbitrary non-empty import path that is neither a standard-library
// path of jennifer's table nor the cgo pseudo package.
func impPath(i int) string {
	p := nondetString(pathNames[i])
	verifAssume(p != "")
	verifAssume(p != "C")
	verifNotKeyOf(p, standardLibraryHints)
	return p
}

// impPrefix: PackagePrefix off, or an arbitrary identifier.
func impPrefix(f *File) {
	if nondetChoice("prefix_on", 2) == 1 {
		pre := nondetString("prefix")
		verifAssume(verifMatch(pre, reIdent))
		f.PackagePrefix = pre
	}
}

// impHint: no hint, ImportName or ImportAlias with an arbitrary identifier other than "_".
func impHint(f *File, i int, p string) int {
	k := nondetChoice("hintkind_"+pathNames[i], 3)
	if k == 0 {
		return 0
	}
	h := nondetString(hintNames[i])
	verifAssume(verifMatch(h, reIdent))
	verifAssume(h != "_")
	if k == 1 {
		f.ImportName(p, h)
	} else {
		f.ImportAlias(p, h)
	}
	return k
}

func distinct(ps []string) {
	for i := range ps {
		for j := 0; j < i; j++ {
			verifAssume(ps[i] != ps[j])
		}
	}
}
