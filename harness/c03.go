package jen

import "bytes"

// C03: every qualified identifier resolves to the package it was built with.

var leadBytes = []string{"a", "b", "c", "d", "e"}

// leadPath: an arbitrary non-stdlib path whose first byte is fixed (this only pins
// the sort position in the import block; the rest, including the last element, is free).
func leadPath(i int) string {
	p := leadBytes[i] + nondetString(pathNames[i])
	verifNotKeyOf(p, standardLibraryHints)
	return p
}

// quick and thorough both range over K<=2 paths; thorough adds a third reference and Anon on every path
func c03K() int { return 2 }

func H_C03_resolve() {
	impSummaries()
	f := NewFile("p")
	impPrefix(f)
	k := 1 + nondetChoice("k", c03K())
	var ps []string
	var hk []int
	var anon []bool
	for i := 0; i < k; i++ {
		ps = append(ps, leadPath(i))
	}
	for i := 0; i < k; i++ {
		hk = append(hk, impHint(f, i, ps[i]))
		a := false
		if i == 0 || verifTier() > 0 {
			// quick tier: only the first path may have been imported anonymously before
			a = nondetBool("anon_" + pathNames[i])
		}
		anon = append(anon, a)
		if a {
			f.Anon(ps[i])
		}
	}
	// references: each picks one of the paths; repeated references must agree
	nrefs := 1 + nondetChoice("nrefs", 2+verifTier())
	qs := make([]string, k)
	seen := make([]bool, k)
	refNames := []string{"r0", "r1", "r2"}
	for j := 0; j < nrefs; j++ {
		i := nondetChoice("which_"+refNames[j], k)
		b := &bytes.Buffer{}
		err := Qual(ps[i], "X").render(f, b, nil)
		verifAssert(err == nil, "no error")
		out := b.String()
		verifAssert(len(out) > 2 && out[len(out)-2:] == ".X", "reference is q.X")
		if len(out) <= 2 {
			return
		}
		q := out[:len(out)-2]
		if seen[i] {
			verifAssert(q == qs[i], "the same path is referred to by the same name everywhere")
		}
		seen[i] = true
		qs[i] = q
	}
	var entries []refImp
	for i := 0; i < k; i++ {
		if !seen[i] {
			if anon[i] {
				entries = append(entries, refImp{path: ps[i], name: "_", alias: true})
			}
			continue
		}
		d := f.imports[ps[i]]
		verifObserve("q", qs[i])
		verifAssert(qs[i] != "" && qs[i] != "_", "qualifier is a usable name, not _")
		verifAssert(d.name == qs[i], "the import block binds the qualifier that was rendered")
		if !d.alias {
			// no alias written: only correct if the user supplied the real name
			verifAssert(hk[i] == 1 && qs[i] == nondetString(hintNames[i]), "an import without alias is qualified by the name the user supplied")
		}
		entries = append(entries, refImp{path: ps[i], name: d.name, alias: d.alias})
	}
	ib := &bytes.Buffer{}
	err := f.renderImports(ib)
	verifAssert(err == nil, "no error")
	verifObserve("imports", ib.String())
	verifAssert(ib.String() == refImportBlock(entries, nil), "import block lists each referenced path once under its qualifier")
}

// standard-library paths: no alias, real name, also with PackagePrefix; colliding pair math/rand vs crypto/rand
func H_C03_std() {
	verifUnwind(64)
	impSummaries()
	canonicalMapOrder()
	f := NewFile("p")
	if nondetChoice("prefix_on", 2) == 1 {
		f.PackagePrefix = "pkg"
	}
	paths := []string{"fmt", "math/rand", "crypto/rand", "text/template", "html/template"}
	real := []string{"fmt", "rand", "rand", "template", "template"}
	order := nondetChoice("order", 2)
	var qs []string
	idx := []int{0, 1, 2, 3, 4}
	if order == 1 {
		idx = []int{2, 1, 0, 4, 3}
	}
	for _, i := range idx {
		b := &bytes.Buffer{}
		Qual(paths[i], "X").render(f, b, nil)
		out := b.String()
		verifAssert(len(out) > 2, "reference rendered")
		if len(out) <= 2 {
			return
		}
		qs = append(qs, out[:len(out)-2])
	}
	var entries []refImp
	for n, i := range idx {
		d := f.imports[paths[i]]
		verifAssert(d.name == qs[n], "import block binds the rendered qualifier")
		if !d.alias {
			verifAssert(qs[n] == real[i], "an unaliased standard import is qualified by the package's real name")
		}
		for m := 0; m < n; m++ {
			verifAssert(qs[m] != qs[n], "distinct paths, distinct qualifiers")
		}
		entries = append(entries, refImp{path: paths[i], name: d.name, alias: d.alias})
	}
	ib := &bytes.Buffer{}
	f.renderImports(ib)
	verifAssert(ib.String() == refImportBlock(entries, nil), "import block matches")
}

// One reference from an arbitrary valid import table (inductive step, cf. H_C05_step): the
// qualifier chosen for a further path is bound to that path only.
func H_C03_step() {
	impSummaries()
	canonicalMapOrder()
	f := NewFile("p")
	impPrefix(f)
	n0, n1 := nondetString("n0"), nondetString("n1")
	verifAssume(verifMatch(n0, reIdent))
	verifAssume(verifMatch(n1, reIdent))
	verifAssume(n0 != n1)
	f.imports["pre.example/0"] = importdef{name: n0, alias: nondetBool("a0")}
	f.imports["pre.example/1"] = importdef{name: n1, alias: nondetBool("a1")}
	p := impPath(0)
	verifAssume(p != "pre.example/0")
	verifAssume(p != "pre.example/1")
	hk := impHint(f, 0, p)
	b := &bytes.Buffer{}
	Qual(p, "X").render(f, b, nil)
	out := b.String()
	verifAssert(len(out) > 2 && out[len(out)-2:] == ".X", "reference is q.X")
	if len(out) <= 2 {
		return
	}
	q := out[:len(out)-2]
	d := f.imports[p]
	verifAssert(d.name == q, "the import block binds the qualifier that was rendered")
	verifAssert(q != n0 && q != n1, "and binds it to this path only")
	if !d.alias {
		verifAssert(hk == 1 && q == nondetString(hintNames[0]), "an import without alias is qualified by the name the user supplied")
	}
}

// References made through Statement/Group.RenderWithFile are recorded in the File exactly like
// references made by File.Render: the table binds the path to a usable name, and the File's own
// render refers to the path by that name.
func H_C03_renderwithfile() {
	impSummaries()
	canonicalMapOrder()
	f := NewFile("p")
	p := leadPath(0)
	hk := impHint(f, 0, p)
	_ = hk
	if nondetBool("anon_first") {
		f.Anon(p)
	}
	w := &bytes.Buffer{}
	var err error
	if nondetChoice("entry", 2) == 0 {
		err = Qual(p, "X").Call().RenderWithFile(w, f)
	} else {
		err = List(Qual(p, "X")).RenderWithFile(w, f)
	}
	if err != nil {
		return // the snippet did not format: nothing is claimed
	}
	d := f.imports[p]
	verifAssert(d.name != "" && d.name != "_", "a path referenced through RenderWithFile is registered under a usable name")
	b := &bytes.Buffer{}
	Qual(p, "Y").render(f, b, nil)
	verifAssert(b.String() == d.name+".Y", "later references use the registered name")
	verifAssert(f.imports[p].name == d.name, "and the registration is unchanged")
}
